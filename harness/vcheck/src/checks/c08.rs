//! C08 — reordering establishes the requested order and preserves every function.
//! (a) E-INPUT over all (source order, request) pairs with all functions alive;
//! (b) chains of reorderings mixed with operations, drops and gc (E-HIST);
//! every case runs in its own group because a failing reordering aborts the process.

use oxidd::{BooleanFunction, Manager, ManagerRef};
use serde_json::json;

use super::boolops::*;
use crate::dd::{Bcdd, Bdd, BoolKind, MRefOf, Zbdd};
use crate::driver::Meta;
use crate::model::{self, Tab};
use crate::proto::{Ctx, attrs};

pub fn meta() -> Meta {
    Meta {
        level: "model_checking",
        rule: "(a) for every kind in {bdd,bcdd,zbdd}, n=3: every source order (6) x every request (all 15 ordered selections of 1..3 distinct variables) with all 256 functions alive; n=4: every source x every total target (576) with a 64-function live set, every partial request from the identity; 1 and 2 workers. After the call: requested pairs in order, Kendall-tau distance to the source minimal among all orders satisfying the request (brute force), var/level maps inverse, every old handle has its old table (interpreter and eval), full audit incl. exact reference counts, canonicity (== route-A rebuild), node_count = model minimum. (a') schedules of the concurrent variant: for sources 0123, 3210, 1302 (2 workers; thorough also 3), 01234 (2 and 3 workers), 31402 (2; thorough also 3), thorough 012345 (3 workers) and the requests reverse / rotate / odd-positions-first, a 4-function live set with nodes on every level: every schedule with <= 2 preemptions (thorough: 3 for 2 workers) of one set_var_order call on a fresh manager; oracle as in (a) without the swap-count minimum, plus no deadlock and no panic. (b) histories: all sequences of depth <= d over {reorder to each of the 6 orders, and, xor, drop, gc} from each source order, every later result compared with the model and with the same operations on a manager created directly in the final order. state = (order, live tables); transition = one executed step.",
        assumptions: vec![
            "the concurrent bubble sort / parallel level update (normally only taken from 65536 nodes on) is forced through a cfg(oxidd_verif) switch: in the `conc4` shards it runs on 4 real rayon workers (exhaustive over (source, target) inputs, free-running over thread schedules); in the `sched<r>` shards the worker instances are controlled threads and all schedules with <= 2 preemptions are enumerated (Workers::broadcast forks them through the join hook; the mutex and condition variable of the task queue announce blocking, a wake-up needs a notification as for the real condition variable, so a lost notification shows up as a deadlock)".into(),
            "orders on 5..10 variables are not enumerated".into(),
        ],
        hang_is_violation: true,
        shard_timeout: (120, 3600),
    }
}

pub fn shards(tier: &str) -> Vec<String> {
    let mut v = vec![];
    for k in ["bdd", "bcdd", "zbdd"] {
        for o in model::perms(3) {
            for tc in ["t1", "t2"] {
                v.push(format!("{k}:n3:{}:{tc}", model::order_str(&o)));
            }
        }
        // n = 4: sources split over shards
        let p4 = model::perms(4);
        let step = if tier == "thorough" { 1 } else { 4 };
        for (i, o) in p4.iter().enumerate() {
            if i % step == 0 {
                v.push(format!("{k}:n4:{}:t1", model::order_str(o)));
            }
        }
        for o in model::perms(3) {
            v.push(format!("{k}:chain:{}:t1", model::order_str(&o)));
        }
        // sparse live sets (empty levels between / around the non-empty ones)
        for (i, o) in p4.iter().enumerate() {
            if tier == "thorough" || i % 2 == 0 {
                v.push(format!("{k}:sparse4:{}:t1", model::order_str(o)));
            }
        }
        for o in ["01234", "43210", "20413", "31402"] {
            v.push(format!("{k}:sparse5:{o}:t1"));
        }
        // the same sparse live sets through the concurrent variant (4 real workers)
        for (i, o) in p4.iter().enumerate() {
            if tier == "thorough" || i % 6 == 1 {
                v.push(format!("{k}:csparse4:{}:t4", model::order_str(o)));
            }
        }
        // single adjacent swaps through the public level_down (dense and sparse live sets, every level)
        for (i, o) in p4.iter().enumerate() {
            if tier == "thorough" || i % 3 == 0 {
                v.push(format!("{k}:leveldown4:{}:t1", model::order_str(o)));
            }
        }
        // the concurrent variant under the cooperative scheduler: all schedules with <= 2 preemptions
        // (part name = sched<request index>: 0 reverse, 1 rotate, 2 odd positions first, 3 exchange the two
        //  bottom-most variables, 4 exchange the two top-most; 5..9 the same with a live set that leaves
        //  the level of the second variable empty)
        for r in (0..10).filter(|r| tier == "thorough" || ![6, 7, 9].contains(r)) {
            for o in ["0123", "3210", "1302"] {
                v.push(format!("{k}:sched{r}:{o}:t2"));
                if tier == "thorough" {
                    v.push(format!("{k}:sched{r}:{o}:t3"));
                }
            }
            for o in ["01234", "31402"] {
                v.push(format!("{k}:sched{r}:{o}:t2"));
                if tier == "thorough" || o == "01234" {
                    v.push(format!("{k}:sched{r}:{o}:t3"));
                }
            }
            if tier == "thorough" {
                v.push(format!("{k}:sched{r}:012345:t3"));
            }
        }
        // the concurrent variant (forced through the oxidd-reorder hook), 4 real workers
        for (i, o) in p4.iter().enumerate() {
            if tier == "thorough" || i % 3 == 0 {
                v.push(format!("{k}:conc4:{}:t4", model::order_str(o)));
            }
        }
    }
    v
}

/// all ordered selections of k >= 1 distinct variables out of n
fn requests(n: u32) -> Vec<Vec<u32>> {
    fn rec(cur: &mut Vec<u32>, n: u32, out: &mut Vec<Vec<u32>>) {
        if !cur.is_empty() {
            out.push(cur.clone());
        }
        for v in 0..n {
            if !cur.contains(&v) {
                cur.push(v);
                rec(cur, n, out);
                cur.pop();
            }
        }
    }
    let mut out = vec![];
    rec(&mut vec![], n, &mut out);
    out.sort_by_key(|r| (r.len(), r.clone()));
    out
}

fn kendall(a: &[u32], b: &[u32]) -> u32 {
    // number of variable pairs in different relative order
    let pos = |o: &[u32], v: u32| o.iter().position(|&x| x == v).unwrap();
    let n = a.len() as u32;
    let mut d = 0;
    for x in 0..n {
        for y in (x + 1)..n {
            if (pos(a, x) < pos(a, y)) != (pos(b, x) < pos(b, y)) {
                d += 1;
            }
        }
    }
    d
}

fn satisfies(order: &[u32], req: &[u32]) -> bool {
    let pos = |v: u32| order.iter().position(|&x| x == v).unwrap();
    req.windows(2).all(|w| pos(w[0]) < pos(w[1]))
}

pub fn current_order<K: BoolKind>(mref: &MRefOf<K>) -> Vec<u32> {
    mref.with_manager_shared(|m| (0..m.num_levels()).map(|l| m.level_to_var(l)).collect())
}

/// Everything that must hold for live handles `fns` (with model tables `tabs`)
/// in the manager's current order. Returns violations as (class, message).
pub fn check_state<K: BoolKind>(mref: &MRefOf<K>, fns: &[&K::F], tabs: &[Tab], n: u32, canon: bool) -> Vec<(String, String)> {
    let mut errs = vec![];
    let order = current_order::<K>(mref);
    for (f, &t) in fns.iter().zip(tabs) {
        match K::table(f) {
            Ok(x) if x == t => {}
            other => errs.push(("function_changed".to_string(), format!("handle with table {t:#x} now reads {other:x?}"))),
        }
        for a in 0..(1u32 << n) {
            if f.eval((0..n).map(|v| (v, (a >> v) & 1 == 1))) != model::bit(t, a) {
                errs.push(("eval_changed".to_string(), format!("eval of handle {t:#x} under {a:#b} wrong")));
                break;
            }
        }
        let want = model::min_size(K::BK, t, n, &order);
        let got = oxidd::Function::node_count(*f);
        if got != want {
            errs.push(("node_count".to_string(), format!("node_count of {t:#x} = {got}, unique reduced diagram under order {} has {want}", model::order_str(&order))));
        }
    }
    let info = K::audit(mref, fns, true);
    for e in info.errors.iter().take(3) {
        errs.push(("audit".to_string(), e.clone()));
    }
    if canon {
        let mut seen: std::collections::BTreeMap<Tab, usize> = Default::default();
        for (i, &t) in tabs.iter().enumerate() {
            if let Some(&j) = seen.get(&t) {
                if fns[i] != fns[j] {
                    errs.push(("noncanonical".to_string(), format!("two handles for table {t:#x} compare unequal")));
                }
                continue;
            }
            seen.insert(t, i);
            match K::build(mref, t) {
                Ok(g) => {
                    if &g != fns[i] {
                        errs.push(("noncanonical".to_string(), format!("handle for table {t:#x} != freshly built diagram of the same function")));
                    }
                }
                Err(_) => errs.push(("unexpected_oom".to_string(), "rebuild failed".into())),
            }
        }
    }
    errs
}

fn reorder_case<K: BoolKind>(ctx: &mut Ctx, n: u32, src: &[u32], req: &[u32], tabs: &[Tab], tc: ThreadCfg) {
    let label = format!("src={} req={}", model::order_str(src), model::order_str(req));
    let (src, req, tabs) = (src.to_vec(), req.to_vec(), tabs.to_vec());
    ctx.group(&label, |ctx| {
        ctx.count("evaluations", 1);
        ctx.count("executions", 1);
        ctx.count("transitions", 1);
        if req.len() > 1 && !satisfies(&src, &req) {
            ctx.count("nontrivial", 1);
        }
        let (mref, fns) = functions_of::<K>(n, &src, 1024, tc, &tabs);
        // a model-count cache that is filled before the reordering and used again afterwards
        let mut count_cache: oxidd::util::SatCountCache<oxidd::util::num::Saturating<u64>, std::hash::BuildHasherDefault<oxidd::util::FxHasher>> = oxidd::util::SatCountCache::default();
        count_cache.cache_all = true;
        for f in fns.iter() {
            let _ = f.sat_count(n, &mut count_cache);
        }
        K::set_order(&mref, &req);
        let got = current_order::<K>(&mref);
        let case = json!({"kind": K::NAME, "n": n, "source_order": model::order_str(&src), "request": model::order_str(&req), "threads": tc.threads, "live_functions": tabs.len(), "resulting_order": model::order_str(&got)});
        let base = attrs(&[("kind", K::NAME), ("op", "set_var_order")]);
        let mut v = |ctx: &mut Ctx, class: &str, msg: String| {
            let mut a = base.clone();
            a.insert("class".into(), class.into());
            ctx.viol(a, case.clone(), &format!("{} set_var_order({}) from {}: {msg}", K::NAME, model::order_str(&req), model::order_str(&src)));
        };
        let mut sorted = got.clone();
        sorted.sort();
        if sorted != (0..n).collect::<Vec<_>>() {
            v(ctx, "order_not_permutation", format!("resulting level->var map {got:?} is not a permutation"));
            return;
        }
        if !satisfies(&got, &req) {
            v(ctx, "request_not_established", format!("resulting order {} violates the request", model::order_str(&got)));
        }
        let best = model::perms(n).into_iter().filter(|o| satisfies(o, &req)).map(|o| kendall(&src, &o)).min().unwrap();
        let d = kendall(&src, &got);
        if satisfies(&got, &req) && d != best {
            v(ctx, "not_minimal_swaps", format!("resulting order {} needs {d} adjacent swaps, {best} suffice", model::order_str(&got)));
        }
        ctx.distinct(crate::proto::fx(&[got.iter().fold(0u64, |a, &x| a * 8 + x as u64), n as u64]));
        let live: Vec<&K::F> = fns.iter().collect();
        for (class, msg) in check_state::<K>(&mref, &live, &tabs, n, true) {
            v(ctx, &class, msg);
        }
        // subsequent operations behave as on a freshly built diagram
        if tabs.len() >= 4 {
            let k = tabs.len();
            for i in [1usize, k / 3, k / 2] {
                let j = (i * 7 + 3) % k;
                let r = fns[i].xor(&fns[j]).and_then(|x| x.or(&fns[(j + 1) % k]));
                let exp = (tabs[i] ^ tabs[j]) | tabs[(j + 1) % k];
                match r.as_ref().map(|h| K::table(h)) {
                    Ok(Ok(x)) if x == exp => {}
                    other => v(ctx, "op_after_reorder", format!("({:#x} xor {:#x}) or {:#x} = {other:x?}, expected {exp:#x}", tabs[i], tabs[j], tabs[(j + 1) % k])),
                }
                // new nodes (possibly in slots freed by the reordering) counted through the old cache
                if let Ok(h) = &r {
                    let c = h.sat_count(n, &mut count_cache).0;
                    if c != exp.count_ones() as u64 {
                        v(ctx, "stale_count_cache", format!("sat_count of a function built after the reordering ({exp:#x}) through a cache that was filled before it = {c}, the function has {} models", exp.count_ones()));
                    }
                }
            }
        }
        // the cache from before the reordering must not serve counts of nodes that no longer exist
        for (f, &t) in fns.iter().zip(&tabs) {
            let c = f.sat_count(n, &mut count_cache).0;
            if c != t.count_ones() as u64 {
                v(ctx, "stale_count_cache", format!("sat_count of {t:#x} through a cache that was filled before the reordering = {c}, the function has {} models", t.count_ones()));
                break;
            }
        }
        // drop everything, gc: back to the initial node count
        drop(live);
        drop(fns);
        let left = mref.with_manager_shared(|m| {
            m.gc();
            m.num_inner_nodes()
        });
        let init = if K::NAME == "zbdd" { n as usize } else { 0 };
        if left != init {
            v(ctx, "leak_after_reorder", format!("{left} inner nodes remain after dropping all handles and gc (initial: {init})"));
        }
        ctx.sample(|| case.clone());
    });
}

pub fn run(ctx: &mut Ctx) {
    let shard = ctx.shard.clone();
    let p: Vec<&str> = shard.split(':').collect();
    match p[0] {
        "bdd" => run_k::<Bdd>(ctx, p[1], p[2], p[3]),
        "bcdd" => run_k::<Bcdd>(ctx, p[1], p[2], p[3]),
        "zbdd" => run_k::<Zbdd>(ctx, p[1], p[2], p[3]),
        _ => panic!(),
    }
}

fn run_k<K: BoolKind>(ctx: &mut Ctx, part: &str, src: &str, tc: &str)
where
    MRefOf<K>: Send + Sync,
{
    let src = model::parse_order(src);
    let tc = ThreadCfg { threads: if tc == "t2" { 2 } else if tc == "t3" { 3 } else if tc == "t4" { 4 } else { 1 }, split: None };
    if let Some(r) = part.strip_prefix("sched") {
        return sched_reorder::<K>(ctx, &src, r.parse().unwrap(), tc);
    }
    crate::dd::force_concurrent_reorder(part == "conc4" || part == "csparse4");
    let part = if part == "conc4" { "n4" } else if part == "csparse4" { "sparse4" } else { part };
    match part {
        "n3" => {
            let tabs: Vec<Tab> = (0..256).collect();
            for req in requests(3) {
                reorder_case::<K>(ctx, 3, &src, &req, &tabs, tc);
            }
            // small live sets: single functions (sparse levels, empty levels)
            for t in [0x96u64, 0xe8, 0xaa, 0x88, 0x01, 0x80] {
                for req in model::perms(3) {
                    reorder_case::<K>(ctx, 3, &src, &req, &[t], tc);
                }
            }
        }
        "n4" => {
            // a fixed live set of 64 four-variable functions
            let x: Vec<Tab> = (0..4).map(|v| model::var_tab(v, 4)).collect();
            let mut tabs: Vec<Tab> = vec![];
            for i in 0..64u64 {
                let a = x[(i % 4) as usize];
                let b = x[((i / 4) % 4) as usize];
                let c = x[((i / 16) % 4) as usize];
                let t = match i % 5 {
                    0 => (a & b) | c,
                    1 => (a ^ b) & !c,
                    2 => (a | !b) ^ c,
                    3 => (a & !b) | (!a & c),
                    _ => a ^ b ^ c ^ x[3],
                } & 0xffff;
                tabs.push(t ^ (i.wrapping_mul(0x9e3779b1) >> 7 & 0xffff & if i % 3 == 0 { 0xffff } else { 0 }));
            }
            for req in model::perms(4) {
                reorder_case::<K>(ctx, 4, &src, &req, &tabs, tc);
            }
            if src == [0, 1, 2, 3] {
                for req in requests(4) {
                    if req.len() < 4 {
                        reorder_case::<K>(ctx, 4, &src, &req, &tabs, tc);
                    }
                }
            }
        }
        "chain" => chains::<K>(ctx, &src, tc),
        "sparse4" | "sparse5" => {
            // live sets whose support is a strict subset of the variables: 1 or 2 functions over
            // 2 of the n variables, so that 2..3 levels are empty; every total target order (n=4)
            // resp. every rotation/reversal/adjacent transposition family (n=5) and all partial
            // requests of length 2..3
            let n = if part == "sparse4" { 4u32 } else { 5 };
            let xv: Vec<Tab> = (0..n).map(|v| model::var_tab(v, n)).collect();
            let full = model::full(n);
            let mut live_sets: Vec<Vec<Tab>> = vec![];
            for i in 0..n as usize {
                for j in (i + 1)..n as usize {
                    live_sets.push(vec![xv[i] & xv[j]]);
                    live_sets.push(vec![xv[i] ^ xv[j], (xv[i] | !xv[j]) & full]);
                }
            }
            let reqs: Vec<Vec<u32>> = if n == 4 {
                let mut r = model::perms(4);
                r.extend(requests(4).into_iter().filter(|q| q.len() == 2 || q.len() == 3));
                r
            } else {
                let mut r: Vec<Vec<u32>> = vec![];
                for p in model::perms(5).into_iter().step_by(7) {
                    r.push(p);
                }
                r.push(vec![4, 3, 2, 1, 0]);
                r.extend(requests(5).into_iter().filter(|q| q.len() == 2).step_by(3));
                r
            };
            for ls in &live_sets {
                for req in &reqs {
                    reorder_case::<K>(ctx, n, &src, req, ls, tc);
                }
            }
        }
        "leveldown4" => {
            let n = 4u32;
            let xv: Vec<Tab> = (0..n).map(|v| model::var_tab(v, n)).collect();
            let full = model::full(n);
            let mut live_sets: Vec<Vec<Tab>> = vec![vec![xv[0] ^ xv[1] ^ xv[2] ^ xv[3], (xv[0] & xv[1]) | (xv[2] & xv[3]), (xv[0] | xv[2]) & !xv[3] & full, xv[1] & xv[3]]];
            for i in 0..n as usize {
                live_sets.push(vec![xv[i]]);
                for j in (i + 1)..n as usize {
                    live_sets.push(vec![xv[i] & xv[j]]);
                    live_sets.push(vec![xv[i] ^ xv[j], (xv[i] | !xv[j]) & full]);
                }
                // three of the four variables: exactly one empty level
                let others: Vec<Tab> = (0..n as usize).filter(|&j| j != i).map(|j| xv[j]).collect();
                live_sets.push(vec![(others[0] & others[1]) | others[2], others[0] ^ others[2]]);
            }
            for ls in &live_sets {
                for l in 0..n - 1 {
                    level_down_case::<K>(ctx, n, &src, l, ls, tc);
                }
            }
        }
        _ => panic!("bad part"),
    }
}

/// one call of the public `level_down` (inside `Manager::reorder`): the two levels are exchanged, every
/// handle keeps its function, the store is well-formed (a node reports the level it is listed in)
fn level_down_case<K: BoolKind>(ctx: &mut Ctx, n: u32, src: &[u32], level: u32, tabs: &[Tab], tc: ThreadCfg) {
    let label = format!("src={} level_down({level}) live={:x?}", model::order_str(src), tabs);
    let (src, tabs) = (src.to_vec(), tabs.to_vec());
    ctx.group(&label, |ctx| {
        ctx.count("evaluations", 1);
        ctx.count("executions", 1);
        ctx.count("transitions", 1);
        ctx.count("nontrivial", 1);
        let (mref, fns) = functions_of::<K>(n, &src, 1024, tc, &tabs);
        K::level_down(&mref, level);
        let got = current_order::<K>(&mref);
        let mut want = src.clone();
        want.swap(level as usize, level as usize + 1);
        let case = json!({"kind": K::NAME, "n": n, "source_order": model::order_str(&src), "level_down": level, "live_functions": tabs, "resulting_order": model::order_str(&got)});
        let mut v = |ctx: &mut Ctx, class: &str, msg: String| {
            ctx.viol(attrs(&[("kind", K::NAME), ("op", "level_down"), ("class", class)]), case.clone(), &format!("{} level_down({level}) from {} with live set {tabs:x?}: {msg}", K::NAME, model::order_str(&src)));
        };
        if got != want {
            v(ctx, "request_not_established", format!("resulting order {}, expected {}", model::order_str(&got), model::order_str(&want)));
        }
        let live: Vec<&K::F> = fns.iter().collect();
        for (class, msg) in check_state::<K>(&mref, &live, &tabs, n, true) {
            v(ctx, &class, msg);
        }
        ctx.distinct(crate::proto::fx(&[got.iter().fold(0u64, |a, &x| a * 8 + x as u64), level as u64, tabs.len() as u64]));
        drop(live);
        drop(fns);
        let left = mref.with_manager_shared(|m| {
            m.gc();
            m.num_inner_nodes()
        });
        let init = if K::NAME == "zbdd" { n as usize } else { 0 };
        if left != init {
            v(ctx, "leak_after_reorder", format!("{left} inner nodes remain after dropping all handles and gc (initial: {init})"));
        }
        ctx.sample(|| case.clone());
    });
}

/// (b) histories of depth <= d over {reorder to pi, and, xor, drop, gc}
fn chains<K: BoolKind>(ctx: &mut Ctx, src: &[u32], tc: ThreadCfg) {
    let n = 3u32;
    let d = if ctx.thorough() { 4 } else { 3 };
    let orders = model::perms(3);
    // actions: 0..6 reorder to orders[i]; 6: A:=A&B; 7: B:=A^C; 8: drop C; 9: gc
    let na = 10usize;
    let total = na.pow(d as u32);
    let src = src.to_vec();
    for first in 0..na {
        let label = format!("chains from {} first action {first}", model::order_str(&src));
        let src = src.clone();
        let orders = orders.clone();
        ctx.group(&label, |ctx| {
            for code in 0..(total / na) {
                let mut acts = vec![first];
                let mut c = code;
                for _ in 1..d {
                    acts.push(c % na);
                    c /= na;
                }
                ctx.count("evaluations", 1);
                ctx.count("executions", 1);
                if acts.iter().filter(|&&a| a < 6).count() >= 2 {
                    ctx.count("nontrivial", 1);
                }
                let (mref, mut regs) = functions_of::<K>(n, &src, 16, tc, &[0xe8, 0x96, 0xca]);
                let mut tabs: Vec<Option<Tab>> = vec![Some(0xe8), Some(0x96), Some(0xca)];
                let mut regs: Vec<Option<K::F>> = regs.drain(..).map(Some).collect();
                for (si, &a) in acts.iter().enumerate() {
                    ctx.count("transitions", 1);
                    match a {
                        0..=5 => K::set_order(&mref, &orders[a]),
                        6 => {
                            if let (Some(x), Some(y)) = (&regs[0], &regs[1]) {
                                regs[0] = x.and(y).ok();
                                tabs[0] = Some(tabs[0].unwrap() & tabs[1].unwrap());
                            }
                        }
                        7 => {
                            if let (Some(x), Some(y)) = (&regs[0], &regs[2]) {
                                regs[1] = x.xor(y).ok();
                                tabs[1] = Some(tabs[0].unwrap() ^ tabs[2].unwrap());
                            }
                        }
                        8 => {
                            regs[2] = None;
                            tabs[2] = None;
                        }
                        _ => {
                            mref.with_manager_shared(|m| m.gc());
                        }
                    }
                    let live: Vec<&K::F> = regs.iter().flatten().collect();
                    let lt: Vec<Tab> = tabs.iter().flatten().copied().collect();
                    let ord = current_order::<K>(&mref);
                    ctx.distinct(crate::proto::fx(&[ord.iter().fold(0u64, |a, &x| a * 8 + x as u64), lt.iter().fold(7u64, |a, &x| a.wrapping_mul(257).wrapping_add(x)), lt.len() as u64]));
                    let mut errs = check_state::<K>(&mref, &live, &lt, n, true);
                    if a < 6 && ord != orders[a] {
                        errs.push(("request_not_established".into(), format!("order after step is {}", model::order_str(&ord))));
                    }
                    // compare with a manager created directly in the current order
                    if si + 1 == acts.len() {
                        let (m2, f2) = functions_of::<K>(n, &ord, 16, tc, &lt);
                        for (i, f) in f2.iter().enumerate() {
                            if oxidd::Function::node_count(f) != oxidd::Function::node_count(live[i]) {
                                errs.push(("differs_from_fresh".into(), format!("node_count differs from a freshly built manager for {:#x}", lt[i])));
                            }
                        }
                        drop(f2);
                        drop(m2);
                    }
                    for (class, msg) in errs {
                        let case = json!({"kind": K::NAME, "n": n, "source_order": model::order_str(&src), "actions": acts, "failed_after_step": si,
                            "legend": "0..5 = set_var_order(perms(3)[i]); 6: A:=A&B; 7: B:=A^C; 8: drop C; 9: gc; registers A,B,C = 0xe8,0x96,0xca"});
                        ctx.viol(attrs(&[("kind", K::NAME), ("op", "reorder_chain"), ("class", &class)]), case, &format!("{} chain {acts:?} from {} step {si}: {msg}", K::NAME, model::order_str(&src)));
                    }
                }
            }
            ctx.sample(|| json!({"kind": K::NAME, "source_order": model::order_str(&src), "actions": [first, 7, 2, 9]}));
        });
    }
}

/// The concurrent bubble sort and the parallel level update of `set_var_order` (forced through the
/// oxidd-reorder hook) with the worker instances running as controlled threads: every schedule with
/// at most `bound` preemptions of one reordering, on a fresh manager per schedule.
fn sched_reorder<K: BoolKind>(ctx: &mut Ctx, src: &[u32], which: usize, tc: ThreadCfg)
where
    MRefOf<K>: Send + Sync,
{
    use crate::sched;
    sched::install_hooks();
    let n = src.len() as u32;
    let x: Vec<Tab> = (0..n).map(|v| model::var_tab(v, n)).collect();
    let full = model::full(n);
    // a small live set with nodes on every level and sharing between the functions
    let parity = x.iter().fold(0, |a, &b| a ^ b);
    let pairs = x.chunks(2).fold(0, |a, c| a | c.iter().fold(full, |p, &q| p & q));
    let mut tabs: Vec<Tab> = vec![parity, pairs, (x[0] | x[2]) & !x[n as usize - 1] & full, x[1] & x[n as usize - 1]];
    let sparse = which >= 5;
    let which = which % 5;
    if sparse {
        // nothing depends on the variable at the second level of the source order: that level is empty
        let e = src[1];
        tabs = tabs.iter().map(|&t| model::cofactor(t, e, false, n)).collect();
    }
    let mut reqs: Vec<Vec<u32>> = vec![];
    let mut r = src.to_vec();
    r.reverse();
    reqs.push(r);
    let mut r = src.to_vec();
    r.rotate_left(1);
    reqs.push(r);
    let mut r: Vec<u32> = src.iter().copied().skip(1).step_by(2).collect();
    r.extend(src.iter().copied().step_by(2));
    reqs.push(r);
    let mut r = src.to_vec();
    let k = r.len();
    r.swap(k - 2, k - 1);
    reqs.push(r);
    let mut r = src.to_vec();
    r.swap(0, 1);
    reqs.push(r);
    let bound = if ctx.thorough() && tc.threads == 2 { 3 } else { 2 };
    for req in [reqs[which].clone()] {
        let label = format!("schedules src={} req={} workers={}{}", model::order_str(src), model::order_str(&req), tc.threads, if sparse { " sparse" } else { "" });
        let src = src.to_vec();
        let tabs = tabs.clone();
        ctx.group(&label, |ctx| {
            let cap = if ctx.thorough() { 400_000 } else { 60_000 };
            let ctx_cell = std::cell::RefCell::new(ctx);
            let (count, maxp, capped) = sched::explore(bound, cap, |prefix| {
                let mut ctx = ctx_cell.borrow_mut();
                crate::dd::force_concurrent_reorder(false);
                let (mref, fns) = functions_of::<K>(n, &src, 1024, tc, &tabs);
                crate::dd::force_concurrent_reorder(true);
                let (mr, rq) = (&mref, &req);
                let bodies: Vec<Box<dyn FnOnce() + Send + '_>> = vec![Box::new(move || K::set_order(mr, rq))];
                let kind = K::NAME;
                let lab = label.clone();
                let pfx = prefix.to_vec();
                let exec = sched::run_reporting_deadlock(prefix, bodies, |d, tr| {
                    let v = json!({"attrs": {"kind": kind, "op": "set_var_order", "class": "deadlock"},
                        "case": {"kind": kind, "case": lab, "schedule_prefix": pfx, "choices": sched::choices(tr)},
                        "msg": format!("{kind} concurrent set_var_order ({lab}): deadlock: {d}"), "group": 0, "shard": format!("{kind}:sched4"), "property": "C08", "tier": "quick"});
                    println!("V {v}");
                });
                crate::dd::force_concurrent_reorder(false);
                ctx.count("evaluations", 1);
                ctx.count("executions", 1);
                ctx.count("transitions", exec.trace.len() as u64);
                if sched::preemptions(&exec.trace) > 0 {
                    ctx.count("nontrivial", 1);
                }
                let mut errs: Vec<(String, String)> = exec.panics.iter().map(|p| ("panic".to_string(), p.clone())).collect();
                if exec.overrun {
                    errs.push(("replay_divergence".into(), "the schedule prefix could not be replayed".into()));
                }
                let got = current_order::<K>(&mref);
                if errs.is_empty() {
                    if !satisfies(&got, &req) {
                        errs.push(("request_not_established".into(), format!("resulting order {} violates the request", model::order_str(&got))));
                    }
                    let live: Vec<&K::F> = fns.iter().collect();
                    errs.extend(check_state::<K>(&mref, &live, &tabs, n, true));
                    drop(live);
                    drop(fns);
                    let left = mref.with_manager_shared(|m| {
                        m.gc();
                        m.num_inner_nodes()
                    });
                    let init = if K::NAME == "zbdd" { n as usize } else { 0 };
                    if left != init {
                        errs.push(("leak_after_reorder".into(), format!("{left} inner nodes remain after dropping all handles and gc (initial: {init})")));
                    }
                }
                ctx.distinct(crate::proto::fx(&[got.iter().fold(0u64, |a, &x| a * 8 + x as u64), exec.trace.len() as u64]));
                for (class, msg) in errs {
                    ctx.viol(
                        attrs(&[("kind", K::NAME), ("op", "set_var_order"), ("class", &class), ("variant", "concurrent_scheduled")]),
                        json!({"kind": K::NAME, "case": label, "choices": sched::choices(&exec.trace),
                               "legend": "choices[i] = index into the enabled list at scheduling point i (0 = keep running / lowest id)"}),
                        &format!("{} concurrent set_var_order ({label}) under schedule {:?}: {msg}", K::NAME, sched::choices(&exec.trace)),
                    );
                }
                exec.trace
            });
            let mut ctx = ctx_cell.borrow_mut();
            ctx.outcome(&format!("schedules:{}:{label}={count},max_points={maxp}{}", K::NAME, if capped { ",CAPPED" } else { "" }));
            if capped {
                println!("M schedule cap of {cap} reached for {} {label}", K::NAME);
            }
            ctx.sample(|| json!({"kind": K::NAME, "case": label, "preemption_bound": bound, "schedules": count, "max_scheduling_points": maxp}));
        });
    }
}
