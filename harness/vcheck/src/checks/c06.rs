//! C06 — the apply cache is transparent (E-HIST differential over cache capacities).

use oxidd::{BooleanVecSet, FunctionSubst, Manager, ManagerRef, Subst};
use serde_json::json;

use crate::dd::{Bcdd, Bdd, BoolKind, Zbdd};
use crate::driver::Meta;
use crate::hist::{self, Prop};
use crate::model::{self, Tab};
use crate::proto::{Ctx, attrs};

pub fn meta() -> Meta {
    Meta {
        level: "model_checking",
        rule: "every history of depth d (quick 4, thorough 5) over 13 actions (5 kind-specific operations incl. different operators on the same operand registers, clone, drops, gc, add_vars, reverse/rotate reordering) for bdd, bcdd, zbdd, mtbdd, tdd (and MTBDD alphabets whose results are bare terminals, on terminal tables of 4..6 entries so that terminal ids are recycled within a history; thorough: also F64 terminals) is executed in lock-step on five managers that differ only in the apply cache: capacities 1, 2, 16, 4096 and a capacity-16 manager warmed up by 50 unrelated operations; after every step every register of every manager must denote the model's table and have the model's minimal node count (hence all managers agree), and every operation is re-issued once with the same operands and must return the same handle. Capacity 1 puts all entries in one bucket, so a key comparison that ignores the operator or an operand is hit by the second operation. states = distinct model states, transitions = checked steps, executions = histories (each on 5 managers).",
        assumptions: vec![
            "operator pairs on identical operands beyond the 5-operation alphabet per kind (quantifiers with the same cube, subset0/subset1/change, alternating substitutions) are enumerated in C04/C09/C10/C11's interleaved groups".into(),
        ],
        hang_is_violation: false,
        shard_timeout: (900, 7200),
    }
}

const KINDS: [&str; 5] = ["bdd", "bcdd", "zbdd", "mtbdd", "tdd"];

pub fn shards(tier: &str) -> Vec<String> {
    let mut v = if tier == "thorough" {
        hist::shards_for(&KINDS, &["n64c0t1", "n64c0t2"], 2)
    } else {
        hist::shards_for(&KINDS, &["n64c0t1"], 1)
    };
    // constant-heavy MTBDD histories on a 6-entry terminal table (terminal ids are recycled quickly), F64 terminals
    if tier == "thorough" {
        v.extend(hist::shards_for(&["mtbddc"], &["n64c0t1k6", "n64c0t1"], 2));
        v.extend(hist::shards_for(&["mtbddk"], &["n64c0t1k4", "n64c0t1k5"], 2));
        v.extend(hist::shards_for(&["mtbddf"], &["n64c0t1"], 2));
    } else {
        v.extend(hist::shards_for(&["mtbddc"], &["n64c0t1k6"], 1));
        v.extend(hist::shards_for(&["mtbddk"], &["n64c0t1k4"], 1));
    }
    // operations whose cache key has a numeric operand (substitution id, variable number)
    for k in ["bdd", "bcdd", "zbdd"] {
        for cap in [1, 2, 16, 4096] {
            v.push(format!("numop:{k}:{cap}"));
        }
    }
    v
}

pub fn run(ctx: &mut Ctx) {
    let shard = ctx.shard.clone();
    if let Some(rest) = shard.strip_prefix("numop:") {
        let (k, cap) = rest.split_once(':').unwrap();
        let cap: usize = cap.parse().unwrap();
        match k {
            "bdd" => numop_subst::<Bdd>(ctx, cap),
            "bcdd" => numop_subst::<Bcdd>(ctx, cap),
            _ => numop_zbdd(ctx, cap),
        }
        return;
    }
    let depth = if ctx.thorough() { 5 } else { 4 };
    hist::run_shard(ctx, Prop::C06, depth);
}

/// All sequences of length d over {substitute(f_i, s_j) for 2 functions x 3 persistent
/// substitution objects, gc}: a result memoised for one substitution must never be
/// served for another, whatever the cache capacity.
fn numop_subst<K: BoolKind>(ctx: &mut Ctx, cap: usize)
where
    K::F: FunctionSubst,
{
    let n = 3u32;
    let d = if ctx.thorough() { 6 } else { 5 };
    let na = 7usize;
    let x: Vec<Tab> = (0..3).map(|v| model::var_tab(v, 3)).collect();
    let ftabs = [0xe8u64, 0x96];
    let repl: [[Option<Tab>; 3]; 3] = [[Some(x[1]), None, None], [Some(x[2]), None, None], [None, Some(!x[0] & 0xff), Some(x[0] ^ x[1])]];
    for first in 0..na {
        ctx.group(&format!("substitution sequences first action {first}"), |ctx| {
            for code in 0..na.pow(d as u32 - 1) {
                let mut acts = vec![first];
                let mut c = code;
                for _ in 1..d {
                    acts.push(c % na);
                    c /= na;
                }
                ctx.count("evaluations", 1);
                ctx.count("executions", 1);
                if acts.iter().filter(|&&a| a < 6).count() >= 3 {
                    ctx.count("nontrivial", 1);
                }
                let mref = crate::dd::fresh::<K>(n, &[0, 1, 2], 256, cap, 1);
                let fs: Vec<K::F> = ftabs.iter().map(|&t| K::build(&mref, t).unwrap()).collect();
                let substs: Vec<Subst<K::F>> = repl
                    .iter()
                    .map(|r| {
                        let mut vars = vec![];
                        let mut reps = vec![];
                        for (v, t) in r.iter().enumerate() {
                            if let Some(t) = t {
                                vars.push(v as u32);
                                reps.push(K::build(&mref, *t).unwrap());
                            }
                        }
                        Subst::new(vars, reps)
                    })
                    .collect();
                for (i, &a) in acts.iter().enumerate() {
                    ctx.count("transitions", 1);
                    if a == 6 {
                        mref.with_manager_shared(|m| m.gc());
                        continue;
                    }
                    let (fi, si) = (a / 3, a % 3);
                    let exp = model::substitute(ftabs[fi], &repl[si], n);
                    let got = fs[fi].substitute(&substs[si]).map(|h| K::table(&h));
                    if got != Ok(Ok(exp)) {
                        ctx.viol(
                            attrs(&[("kind", K::NAME), ("class", "result_depends_on_cache"), ("last_action", "substitute")]),
                            json!({"kind": K::NAME, "cache": cap, "actions": acts, "failed_at_step": i, "functions": ftabs, "substitutions": repl,
                                   "legend": "action a < 6: substitute(function a/3, substitution a%3) with persistent Subst objects; 6: gc"}),
                            &format!("C06 {} cache capacity {cap}: sequence {acts:?} step {i}: substitute(f{fi}={:#x}, s{si}) = {got:x?}, expected {exp:#x}", K::NAME, ftabs[fi]),
                        );
                    }
                }
            }
            ctx.sample(|| json!({"kind": K::NAME, "cache": cap, "actions": [first, 1, 0, 6, 1]}));
        });
    }
}

/// ZBDD: all sequences over {subset0, subset1, change} x 3 variables x 2 families
fn numop_zbdd(ctx: &mut Ctx, cap: usize) {
    use oxidd::zbdd::ZBDDFunction;
    let n = 3u32;
    let d = if ctx.thorough() { 4 } else { 3 };
    let na = 19usize;
    let ftabs = [0x96u64, 0xe9];
    for first in 0..na {
        ctx.group(&format!("subset/change sequences first action {first}"), |ctx| {
            for code in 0..na.pow(d as u32 - 1) {
                let mut acts = vec![first];
                let mut c = code;
                for _ in 1..d {
                    acts.push(c % na);
                    c /= na;
                }
                ctx.count("evaluations", 1);
                ctx.count("executions", 1);
                ctx.count("nontrivial", 1);
                // non-identity order so that variable numbers and levels differ
                let mref = crate::dd::fresh::<Zbdd>(n, &[0, 2, 1], 256, cap, 1);
                let fs: Vec<ZBDDFunction> = ftabs.iter().map(|&t| Zbdd::build(&mref, t).unwrap()).collect();
                for (i, &a) in acts.iter().enumerate() {
                    ctx.count("transitions", 1);
                    if a == 18 {
                        mref.with_manager_shared(|m| m.gc());
                        continue;
                    }
                    let (fi, op, v) = (a / 9, (a % 9) / 3, (a % 3) as u32);
                    let (exp, got) = match op {
                        0 => (model::fam_subset0(ftabs[fi], v, n), fs[fi].subset0(v)),
                        1 => (model::fam_subset1(ftabs[fi], v, n), fs[fi].subset1(v)),
                        _ => (model::fam_change(ftabs[fi], v, n), fs[fi].change(v)),
                    };
                    let got = got.map(|h| Zbdd::table(&h));
                    if got != Ok(Ok(exp)) {
                        ctx.viol(
                            attrs(&[("kind", "zbdd"), ("class", "result_depends_on_cache"), ("last_action", ["subset0", "subset1", "change"][op])]),
                            json!({"kind": "zbdd", "cache": cap, "order": "021", "actions": acts, "failed_at_step": i, "families": ftabs,
                                   "legend": "action a < 18: family a/9, operation (a%9)/3 in (subset0, subset1, change), variable a%3; 18: gc"}),
                            &format!("C06 zbdd cache capacity {cap}: sequence {acts:?} step {i}: {}({:#x}, var {v}) = {got:x?}, expected {exp:#x}", ["subset0", "subset1", "change"][op], ftabs[fi]),
                        );
                    }
                }
            }
        });
    }
}
