//! C06 — the apply cache is transparent (E-HIST differential over cache capacities).

use oxidd::{BooleanFunction, BooleanVecSet, FunctionSubst, Manager, ManagerRef, Subst};
use serde_json::json;

use crate::dd::{Bcdd, Bdd, BoolKind, Zbdd};
use crate::driver::Meta;
use crate::hist::{self, Prop};
use crate::model::{self, Tab};
use crate::proto::{Ctx, attrs};

pub fn meta() -> Meta {
    Meta {
        level: "model_checking",
        rule: "`mtswap`: MTBDD (I64, 3 variables, apply cache 1/2/16/4096): every operator of {add,sub,mul,div,min,max} on every ordered pair of an 81-table set (thorough: 256 tables), then on the exchanged pair, then on the first pair again, back to back; every answer = pointwise model. Further: every history of depth d (quick 4, thorough 5) over 13 actions (5 kind-specific operations incl. different operators on the same operand registers, clone, drops, gc, add_vars, reverse/rotate reordering) for bdd, bcdd, zbdd, mtbdd, tdd (and MTBDD alphabets whose results are bare terminals, on terminal tables of 4..6 entries so that terminal ids are recycled within a history; thorough: also F64 terminals; bdd/zbdd (thorough: bcdd) also with an edge-level operation computed inside the closure of Manager::reorder before the levels are moved) is executed in lock-step on five managers that differ only in the apply cache: capacities 1, 2, 16, 4096 and a capacity-16 manager warmed up by 50 unrelated operations; after every step every register of every manager must denote the model's table and have the model's minimal node count (hence all managers agree), and every operation is re-issued once with the same operands and must return the same handle. Capacity 1 puts all entries in one bucket, so a key comparison that ignores the operator or an operand is hit by the second operation. states = distinct model states, transitions = checked steps, executions = histories (each on 5 managers).",
        assumptions: vec![
            "operator pairs on identical operands beyond the 5-operation alphabet per kind (quantifiers with the same cube, subset0/subset1/change, alternating substitutions) are enumerated in C04/C09/C10/C11's interleaved groups".into(),
        ],
        hang_is_violation: false,
        shard_timeout: (900, 7200),
    }
}

const KINDS: [&str; 5] = ["bdd", "bcdd", "zbdd", "mtbdd", "tdd"];

pub fn shards(tier: &str) -> Vec<String> {
    let mut v = if tier == "thorough" {
        hist::shards_for(&KINDS, &["n64c0t1", "n64c0t2"], 2)
    } else {
        hist::shards_for(&KINDS, &["n64c0t1"], 1)
    };
    // constant-heavy MTBDD histories on a 6-entry terminal table (terminal ids are recycled quickly), F64 terminals
    if tier == "thorough" {
        v.extend(hist::shards_for(&["mtbddc"], &["n64c0t1k6", "n64c0t1"], 2));
        v.extend(hist::shards_for(&["mtbddk"], &["n64c0t1k4", "n64c0t1k5"], 2));
        v.extend(hist::shards_for(&["mtbddf"], &["n64c0t1"], 2));
        v.extend(hist::shards_for(&["zbdds"], &["n64c0t1"], 2));
    } else {
        v.extend(hist::shards_for(&["mtbddc"], &["n64c0t1k6"], 1));
        v.extend(hist::shards_for(&["mtbddk"], &["n64c0t1k4"], 1));
        v.extend(hist::shards_for(&["zbdds"], &["n64c0t1"], 1));
    }
    // reorderings with an operation computed inside the closure of Manager::reorder (nothing memoised
    // there may survive the level swaps that follow)
    if tier == "thorough" {
        v.extend(hist::shards_for(&["bdd", "bcdd", "zbdd"], &["n64c0t1r"], 2));
    } else {
        v.extend(hist::shards_for(&["bdd", "zbdd"], &["n64c0t1r"], 1));
    }
    // memoisation histories of length two over restrict / quantification requests: the answer to the
    // second request after the first one must be the handle obtained on an emptied cache
    for k in ["bdd", "bcdd", "zbdd"] {
        for o in if tier == "thorough" { vec!["012", "021", "102", "120", "201", "210"] } else { vec!["012", "120", "201"] } {
            v.push(format!("pairs:{k}:{o}"));
        }
    }
    // loom model of the substitution id generator: ids are cache-key components, so they must be unique
    // under every interleaving of concurrent `Subst::new()` calls
    v.extend(super::loomx::substid_shards());
    // operations whose cache key has a numeric operand (substitution id, variable number)
    for k in ["bdd", "bcdd", "zbdd"] {
        for cap in [1, 2, 16, 4096] {
            v.push(format!("numop:{k}:{cap}"));
        }
    }
    // MTBDD: every operator on every ordered operand pair and then on the exchanged pair (a key that forgets
    // the operand order of a non-commutative operator serves the first answer for the second request)
    for cap in [1, 2, 16, 4096] {
        v.push(format!("mtswap:{cap}"));
    }
    v
}

pub fn run(ctx: &mut Ctx) {
    let shard = ctx.shard.clone();
    if let Some(cap) = shard.strip_prefix("mtswap:") {
        return mtswap(ctx, cap.parse().unwrap());
    }
    if shard.starts_with("loom:") {
        return super::loomx::run_substid(ctx);
    }
    if let Some(rest) = shard.strip_prefix("pairs:") {
        let (k, o) = rest.split_once(':').unwrap();
        let order = model::parse_order(o);
        match k {
            "bdd" => request_pairs::<Bdd>(ctx, &order, &|w, f, c| <Bdd as super::c04::QuantKind>::q(w, f, c), true),
            "bcdd" => request_pairs::<Bcdd>(ctx, &order, &|w, f, c| <Bcdd as super::c04::QuantKind>::q(w, f, c), true),
            _ => request_pairs::<Zbdd>(ctx, &order, &|_, _, _| unreachable!(), false),
        }
        return;
    }
    if let Some(rest) = shard.strip_prefix("numop:") {
        let (k, cap) = rest.split_once(':').unwrap();
        let cap: usize = cap.parse().unwrap();
        match k {
            "bdd" => numop_subst::<Bdd>(ctx, cap),
            "bcdd" => numop_subst::<Bcdd>(ctx, cap),
            _ => numop_zbdd(ctx, cap),
        }
        return;
    }
    let depth = if ctx.thorough() { 5 } else { 4 };
    hist::run_shard(ctx, Prop::C06, depth);
}

/// MTBDD over I64, 3 variables, apply cache of `cap` entries: for every ordered pair (f, g) of an 81-table
/// set (thorough: 256 tables) and every operator: op(f, g), op(g, f), op(f, g) again,
/// issued back to back on a manager that keeps only the operands alive; each answer must be the pointwise
/// lifting of the model operator, whatever was memoised by the request before.
fn mtswap(ctx: &mut Ctx, cap: usize) {
    use crate::mtbdd::{self as mt, MOPS, MtI64, MtKind, Num};
    let alpha: &[i64] = if ctx.thorough() { &[1, 2, 4, 12] } else { &[1, 2, 4] };
    let k = alpha.len();
    let mut tabs: Vec<Vec<Num>> = vec![];
    for i in 0..k.pow(4) {
        let base: Vec<i64> = (0..4).map(|d| alpha[(i / k.pow(d)) % k]).collect();
        tabs.push((0..8usize).map(|a| Num::Int(base[a & 3] * (1 + (a >> 2) as i64))).collect());
    }
    let step = 1;
    ctx.group(&format!("mtbdd operand pairs in both orders, cache {cap}"), |ctx| {
        let mref = mt::fresh::<MtI64>(3, &[0, 1, 2], 1 << 16, 1 << 10, cap, 1);
        let fs: Vec<_> = tabs.iter().map(|t| MtI64::build(&mref, t).expect("harness: operand")).collect();
        for i in (0..tabs.len()).step_by(step) {
            for j in 0..tabs.len() {
                for op in MOPS {
                    for (k, (a, b)) in [(i, j), (j, i), (i, j)].into_iter().enumerate() {
                        ctx.count("evaluations", 1);
                        ctx.count("transitions", 1);
                        let exp = op.lift(&tabs[a], &tabs[b]);
                        let got = op.apply(&fs[a], &fs[b]).map_err(|_| "OutOfMemory".to_string()).and_then(|r| MtI64::table(&r));
                        if k > 0 && a != b && !mt::is_const(&tabs[a]) && !mt::is_const(&tabs[b]) {
                            ctx.count("nontrivial", 1);
                        }
                        if got.as_ref() != Ok(&exp) {
                            ctx.viol(
                                attrs(&[("kind", "mtbdd"), ("op", op.name()), ("class", "swapped_operands"), ("step", &k.to_string())]),
                                json!({"kind": "mtbdd", "apply_cache": cap, "op": op.name(), "f": mt::show_tab(&tabs[i]), "g": mt::show_tab(&tabs[j]),
                                       "sequence": "op(f,g); op(g,f); op(f,g)", "failing_step": k}),
                                &format!("mtbdd cache {cap}: {}(f, g), {}(g, f), {}(f, g) with f = {:?}, g = {:?}: step {k} returned {:?}, expected {:?}",
                                    op.name(), op.name(), op.name(), mt::show_tab(&tabs[i]), mt::show_tab(&tabs[j]), got.map(|t| mt::show_tab(&t)), mt::show_tab(&exp)),
                            );
                        }
                    }
                }
            }
            // results are dead: collect them (this also empties the apply cache between blocks)
            MtI64::gc(&mref);
        }
        let refs: Vec<_> = fs.iter().collect();
        for e in MtI64::audit(&mref, &refs, true).errors.iter().take(2) {
            ctx.viol(attrs(&[("kind", "mtbdd"), ("class", "audit")]), json!({"kind": "mtbdd", "apply_cache": cap}), &format!("mtswap audit: {e}"));
        }
    });
}

/// All sequences of length d over {substitute(f_i, s_j) for 2 functions x 3 persistent
/// substitution objects (created on three different threads, two of which have exited), gc}: a result memoised for one substitution must never be
/// served for another, whatever the cache capacity.
fn numop_subst<K: BoolKind>(ctx: &mut Ctx, cap: usize)
where
    K::F: FunctionSubst,
{
    let n = 3u32;
    let d = if ctx.thorough() { 6 } else { 5 };
    let na = 7usize;
    let x: Vec<Tab> = (0..3).map(|v| model::var_tab(v, 3)).collect();
    let ftabs = [0xe8u64, 0x96];
    let repl: [[Option<Tab>; 3]; 3] = [[Some(x[1]), None, None], [Some(x[2]), None, None], [None, Some(!x[0] & 0xff), Some(x[0] ^ x[1])]];
    for first in 0..na {
        ctx.group(&format!("substitution sequences first action {first}"), |ctx| {
            for code in 0..na.pow(d as u32 - 1) {
                let mut acts = vec![first];
                let mut c = code;
                for _ in 1..d {
                    acts.push(c % na);
                    c /= na;
                }
                ctx.count("evaluations", 1);
                ctx.count("executions", 1);
                if acts.iter().filter(|&&a| a < 6).count() >= 3 {
                    ctx.count("nontrivial", 1);
                }
                let mref = crate::dd::fresh::<K>(n, &[0, 1, 2], 256, cap, 1);
                let fs: Vec<K::F> = ftabs.iter().map(|&t| K::build(&mref, t).unwrap()).collect();
                // the first object is created on this thread, every further one on a thread of its own
                // that has exited before the next one is created (ids must be unique across threads)
                let substs: Vec<Subst<K::F>> = repl
                    .iter()
                    .enumerate()
                    .map(|(si, r)| {
                        let mut vars = vec![];
                        let mut reps = vec![];
                        for (v, t) in r.iter().enumerate() {
                            if let Some(t) = t {
                                vars.push(v as u32);
                                reps.push(K::build(&mref, *t).unwrap());
                            }
                        }
                        if si == 0 {
                            Subst::new(vars, reps)
                        } else {
                            std::thread::scope(|sc| sc.spawn(move || Subst::new(vars, reps)).join().unwrap())
                        }
                    })
                    .collect();
                for (i, &a) in acts.iter().enumerate() {
                    ctx.count("transitions", 1);
                    if a == 6 {
                        mref.with_manager_shared(|m| m.gc());
                        continue;
                    }
                    let (fi, si) = (a / 3, a % 3);
                    let exp = model::substitute(ftabs[fi], &repl[si], n);
                    let got = fs[fi].substitute(&substs[si]).map(|h| K::table(&h));
                    if got != Ok(Ok(exp)) {
                        ctx.viol(
                            attrs(&[("kind", K::NAME), ("class", "result_depends_on_cache"), ("last_action", "substitute")]),
                            json!({"kind": K::NAME, "cache": cap, "actions": acts, "failed_at_step": i, "functions": ftabs, "substitutions": repl,
                                   "legend": "action a < 6: substitute(function a/3, substitution a%3) with persistent Subst objects; 6: gc"}),
                            &format!("C06 {} cache capacity {cap}: sequence {acts:?} step {i}: substitute(f{fi}={:#x}, s{si}) = {got:x?}, expected {exp:#x}", K::NAME, ftabs[fi]),
                        );
                    }
                }
            }
            ctx.sample(|| json!({"kind": K::NAME, "cache": cap, "actions": [first, 1, 0, 6, 1]}));
        });
    }
}

/// ZBDD: all sequences over {subset0, subset1, change} x 3 variables x 2 families
fn numop_zbdd(ctx: &mut Ctx, cap: usize) {
    use oxidd::zbdd::ZBDDFunction;
    let n = 3u32;
    let d = if ctx.thorough() { 4 } else { 3 };
    let na = 19usize;
    let ftabs = [0x96u64, 0xe9];
    for first in 0..na {
        ctx.group(&format!("subset/change sequences first action {first}"), |ctx| {
            for code in 0..na.pow(d as u32 - 1) {
                let mut acts = vec![first];
                let mut c = code;
                for _ in 1..d {
                    acts.push(c % na);
                    c /= na;
                }
                ctx.count("evaluations", 1);
                ctx.count("executions", 1);
                ctx.count("nontrivial", 1);
                // non-identity order so that variable numbers and levels differ
                let mref = crate::dd::fresh::<Zbdd>(n, &[0, 2, 1], 256, cap, 1);
                let fs: Vec<ZBDDFunction> = ftabs.iter().map(|&t| Zbdd::build(&mref, t).unwrap()).collect();
                for (i, &a) in acts.iter().enumerate() {
                    ctx.count("transitions", 1);
                    if a == 18 {
                        mref.with_manager_shared(|m| m.gc());
                        continue;
                    }
                    let (fi, op, v) = (a / 9, (a % 9) / 3, (a % 3) as u32);
                    let (exp, got) = match op {
                        0 => (model::fam_subset0(ftabs[fi], v, n), fs[fi].subset0(v)),
                        1 => (model::fam_subset1(ftabs[fi], v, n), fs[fi].subset1(v)),
                        _ => (model::fam_change(ftabs[fi], v, n), fs[fi].change(v)),
                    };
                    let got = got.map(|h| Zbdd::table(&h));
                    if got != Ok(Ok(exp)) {
                        ctx.viol(
                            attrs(&[("kind", "zbdd"), ("class", "result_depends_on_cache"), ("last_action", ["subset0", "subset1", "change"][op])]),
                            json!({"kind": "zbdd", "cache": cap, "order": "021", "actions": acts, "failed_at_step": i, "families": ftabs,
                                   "legend": "action a < 18: family a/9, operation (a%9)/3 in (subset0, subset1, change), variable a%3; 18: gc"}),
                            &format!("C06 zbdd cache capacity {cap}: sequence {acts:?} step {i}: {}({:#x}, var {v}) = {got:x?}, expected {exp:#x}", ["subset0", "subset1", "change"][op], ftabs[fi]),
                        );
                    }
                }
            }
        });
    }
}

/// Requests: the 26 restrictions by a non-empty cube and (BDD/BCDD) the 21 quantifications over a
/// non-empty variable set. For every ordered pair (r1, r2) of distinct requests: empty the cache
/// (gc), issue r1 for all 256 functions, issue r2 for all 256 functions (answers kept alive), empty
/// the cache again, issue r2 once more: both answers must be the same handle for every function.
fn request_pairs<K: BoolKind>(ctx: &mut Ctx, order: &[u32], q: &dyn Fn(u8, &K::F, &K::F) -> oxidd_core::util::AllocResult<K::F>, with_quant: bool) {
    let n = 3u32;
    let order = order.to_vec();
    #[derive(Clone, Copy, PartialEq, Debug)]
    enum Req {
        Restrict(u32, u32),
        Quant(u8, u32),
    }
    let mut reqs = vec![];
    for pos in 0..8u32 {
        for neg in 0..8u32 {
            if pos & neg == 0 && (pos | neg) != 0 {
                reqs.push(Req::Restrict(pos, neg));
            }
        }
    }
    if with_quant {
        for w in 0..3u8 {
            for vars in 1..8u32 {
                reqs.push(Req::Quant(w, vars));
            }
        }
    }
    ctx.group("request pairs", |ctx| {
        let tc = super::boolops::ThreadCfg { threads: 1, split: None };
        let (mref, fns) = super::boolops::all_functions::<K>(n, &order, 1 << 14, tc);
        let issue = |r: Req, f: &K::F| match r {
            Req::Restrict(pos, neg) => f.restrict(&fns[model::cube_tab(pos, neg, n) as usize]),
            Req::Quant(w, vars) => q(w, f, &fns[model::cube_tab(vars, 0, n) as usize]),
        };
        for &r1 in &reqs {
            for &r2 in &reqs {
                if r1 == r2 {
                    continue;
                }
                ctx.count("executions", 1);
                mref.with_manager_shared(|m| m.gc());
                for f in fns.iter() {
                    let _ = issue(r1, f);
                }
                let after: Vec<_> = fns.iter().map(|f| issue(r2, f)).collect();
                mref.with_manager_shared(|m| m.gc());
                for (t, f) in fns.iter().enumerate() {
                    ctx.count("evaluations", 1);
                    ctx.count("transitions", 2);
                    if t != 0 && t != 255 {
                        ctx.count("nontrivial", 1);
                    }
                    let fresh = issue(r2, f);
                    let same = match (&after[t], &fresh) {
                        (Ok(a), Ok(b)) => a == b,
                        _ => false,
                    };
                    if !same {
                        ctx.viol(
                            attrs(&[("kind", K::NAME), ("class", "result_depends_on_cache"), ("last_action", "request_pair")]),
                            json!({"kind": K::NAME, "order": model::order_str(&order), "function": t, "first_request": format!("{r1:?}"), "second_request": format!("{r2:?}"),
                                   "after_first": after[t].as_ref().ok().map(|h| K::table(h)).map(|x| format!("{x:x?}")), "on_empty_cache": fresh.as_ref().ok().map(|h| K::table(h)).map(|x| format!("{x:x?}"))}),
                            &format!("C06 {} order {}: {r2:?} of {t:#x} issued after {r1:?} (for all functions) returns {:x?}, on an emptied cache {:x?}", K::NAME, model::order_str(&order),
                                after[t].as_ref().ok().map(|h| K::table(h)), fresh.as_ref().ok().map(|h| K::table(h))),
                        );
                    }
                }
            }
        }
        ctx.sample(|| json!({"kind": K::NAME, "order": model::order_str(&order), "first_request": "Restrict(5, 0)", "second_request": "Restrict(4, 0)"}));
    });
}
