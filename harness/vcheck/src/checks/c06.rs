//! C06 — the apply cache is transparent (E-HIST differential over cache capacities).

use crate::driver::Meta;
use crate::hist::{self, Prop};
use crate::proto::Ctx;

pub fn meta() -> Meta {
    Meta {
        level: "model_checking",
        rule: "every history of depth d (quick 4, thorough 5) over 13 actions (5 kind-specific operations incl. different operators on the same operand registers, clone, drops, gc, add_vars, reverse/rotate reordering) for bdd, bcdd, zbdd, mtbdd, tdd is executed in lock-step on five managers that differ only in the apply cache: capacities 1, 2, 16, 4096 and a capacity-16 manager warmed up by 50 unrelated operations; after every step every register of every manager must denote the model's table and have the model's minimal node count (hence all managers agree), and every operation is re-issued once with the same operands and must return the same handle. Capacity 1 puts all entries in one bucket, so a key comparison that ignores the operator or an operand is hit by the second operation. states = distinct model states, transitions = checked steps, executions = histories (each on 5 managers).",
        assumptions: vec![
            "operator pairs on identical operands beyond the 5-operation alphabet per kind (quantifiers with the same cube, subset0/subset1/change, alternating substitutions) are enumerated in C04/C09/C10/C11's interleaved groups".into(),
        ],
        hang_is_violation: false,
        shard_timeout: (900, 7200),
    }
}

const KINDS: [&str; 5] = ["bdd", "bcdd", "zbdd", "mtbdd", "tdd"];

pub fn shards(tier: &str) -> Vec<String> {
    if tier == "thorough" {
        hist::shards_for(&KINDS, &["n64c0t1", "n64c0t2"], 2)
    } else {
        hist::shards_for(&KINDS, &["n64c0t1"], 1)
    }
}

pub fn run(ctx: &mut Ctx) {
    let depth = if ctx.thorough() { 5 } else { 4 };
    hist::run_shard(ctx, Prop::C06, depth);
}
