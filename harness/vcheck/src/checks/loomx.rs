//! E-LOOM: loom models of two small lock-free units whose code is derived from /repo's source text at
//! build time (harness/loomunits/build.rs): the spin lock of the apply-cache buckets (C07) and the
//! generator of substitution ids (C06). loom enumerates all interleavings of the atomic operations
//! (optionally up to a preemption bound) including the weak behaviours the orderings permit.

use serde_json::json;

use crate::proto::{Ctx, attrs};

/// The models live in a binary of their own (`harness/loomunits`, built after the harness; its source is
/// derived from /repo's text). `Ok(n)`: n executions, all fine; `Err(msg)`: an execution failed.
/// If the binary is missing (the derived code did not build) the shard ends as a machinery error.
fn loomrun(args: &[String]) -> Result<usize, String> {
    let exe = std::env::current_exe().expect("current_exe").with_file_name("loomrun");
    if !exe.exists() {
        println!("M the loom units were not built (harness/loomunits: the code derived from /repo's source text does not compile; see target/build_loom.log.tmp)");
        std::process::exit(2);
    }
    let out = std::process::Command::new(&exe).args(args).output().expect("loomrun");
    let so = String::from_utf8_lossy(&out.stdout).to_string();
    if let Some(n) = so.lines().find_map(|l| l.strip_prefix("OK ")) {
        return Ok(n.trim().parse().unwrap_or(0));
    }
    if let Some(m) = so.lines().find_map(|l| l.strip_prefix("FAIL ")) {
        return Err(m.to_string());
    }
    let se = String::from_utf8_lossy(&out.stderr);
    Err(format!("the model run died ({:?}): {}", out.status.code(), se.lines().rev().take(3).collect::<Vec<_>>().join(" | ")))
}

fn derived_source(unit: &str) -> String {
    let exe = std::env::current_exe().expect("current_exe").with_file_name("loomrun");
    std::process::Command::new(exe).args(["src", unit]).output().map(|o| String::from_utf8_lossy(&o.stdout).to_string()).unwrap_or_default()
}

fn bstr(b: Option<usize>) -> String {
    b.map(|x| x.to_string()).unwrap_or_else(|| "none".into())
}

pub fn spinlock_shards() -> Vec<String> {
    // acquisition styles per thread: l = lock(), t = try_lock()
    ["ll", "lt", "tt", "llt", "ltt", "ttt", "lll"].iter().map(|s| format!("loom:spinlock:{s}")).collect()
}

pub fn run_spinlock(ctx: &mut Ctx) {
    let shard = ctx.shard.clone();
    let styles: Vec<bool> = shard.rsplit(':').next().unwrap().chars().map(|c| c == 't').collect();
    let bound = if styles.len() >= 3 { Some(3) } else { None };
    ctx.group(&format!("loom: bucket lock, threads {styles:?} (true = try_lock), preemption bound {bound:?}"), |ctx| {
        let a = attrs(&[("kind", "loom"), ("script", "spinlock"), ("class", "mutual_exclusion")]);
        let case = || json!({"unit": "oxidd-cache/src/util.rs RawMutex", "threads_try_lock": styles, "preemption_bound": bound, "derived_source": derived_source("spinlock")});
        let sty: String = styles.iter().map(|&t| if t { 't' } else { 'l' }).collect();
        let r = loomrun(&["spinlock".into(), sty, bstr(bound)]);
        if let Err(m) = &r {
            ctx.viol(a.clone(), case(), &format!("loom model of the bucket lock: {m}"));
        }
        if let Ok(n) = r {
            ctx.count("evaluations", n as u64);
            ctx.count("executions", n as u64);
            ctx.count("nontrivial", n as u64);
            ctx.count("transitions", n as u64);
            ctx.outcome(&format!("loom:spinlock:{}={n} executions", shard.rsplit(':').next().unwrap()));
        }
        ctx.sample(case);
    });
}

pub fn substid_shards() -> Vec<String> {
    vec!["loom:substid:2x2".into(), "loom:substid:3x1".into(), "loom:substid:3x2".into()]
}

pub fn run_substid(ctx: &mut Ctx) {
    let shard = ctx.shard.clone();
    let cfg = shard.rsplit(':').next().unwrap().to_string();
    let (t, k) = cfg.split_once('x').unwrap();
    let (t, k): (usize, usize) = (t.parse().unwrap(), k.parse().unwrap());
    let bound = if t * k > 4 { Some(3) } else { None };
    ctx.group(&format!("loom: substitution ids, {t} threads x {k} ids, preemption bound {bound:?}"), |ctx| {
        let a = attrs(&[("kind", "loom"), ("class", "result_depends_on_cache"), ("last_action", "new_substitution_id")]);
        let case = || json!({"unit": "oxidd-core/src/util/substitution.rs new_substitution_id", "threads": t, "ids_per_thread": k, "preemption_bound": bound, "derived_source": derived_source("substid")});
        let r = loomrun(&["substid".into(), t.to_string(), k.to_string(), bstr(bound)]);
        if let Err(m) = &r {
            ctx.viol(a.clone(), case(), &format!("loom model of the substitution id generator: {m}"));
        }
        if let Ok(n) = r {
            ctx.count("evaluations", n as u64);
            ctx.count("executions", n as u64);
            ctx.count("nontrivial", n as u64);
            ctx.count("transitions", n as u64);
            ctx.outcome(&format!("loom:substid:{cfg}={n} executions"));
        }
        ctx.sample(case);
    });
}
