//! E-LOOM: loom models of two small lock-free units whose code is derived from /repo's source text at
//! build time (harness/loomunits/build.rs): the spin lock of the apply-cache buckets (C07) and the
//! generator of substitution ids (C06). loom enumerates all interleavings of the atomic operations
//! (optionally up to a preemption bound) including the weak behaviours the orderings permit.

use serde_json::json;

use crate::proto::{Ctx, attrs};

pub fn spinlock_shards() -> Vec<String> {
    // acquisition styles per thread: l = lock(), t = try_lock()
    ["ll", "lt", "tt", "llt", "ltt", "ttt", "lll"].iter().map(|s| format!("loom:spinlock:{s}")).collect()
}

pub fn run_spinlock(ctx: &mut Ctx) {
    let shard = ctx.shard.clone();
    let styles: Vec<bool> = shard.rsplit(':').next().unwrap().chars().map(|c| c == 't').collect();
    let bound = if styles.len() >= 3 { Some(3) } else { None };
    ctx.group(&format!("loom: bucket lock, threads {styles:?} (true = try_lock), preemption bound {bound:?}"), |ctx| {
        let a = attrs(&[("kind", "loom"), ("script", "spinlock"), ("class", "mutual_exclusion")]);
        let case = || json!({"unit": "oxidd-cache/src/util.rs RawMutex", "threads_try_lock": styles, "preemption_bound": bound, "derived_source": loomunits::SPINLOCK_SRC});
        if let Some(n) = ctx.guarded(&a, case, || loomunits::check_spinlock(&styles, bound)) {
            ctx.count("evaluations", n as u64);
            ctx.count("executions", n as u64);
            ctx.count("nontrivial", n as u64);
            ctx.count("transitions", n as u64);
            ctx.outcome(&format!("loom:spinlock:{}={n} executions", shard.rsplit(':').next().unwrap()));
        }
        ctx.sample(case);
    });
}

pub fn substid_shards() -> Vec<String> {
    vec!["loom:substid:2x2".into(), "loom:substid:3x1".into(), "loom:substid:3x2".into()]
}

pub fn run_substid(ctx: &mut Ctx) {
    let shard = ctx.shard.clone();
    let cfg = shard.rsplit(':').next().unwrap().to_string();
    let (t, k) = cfg.split_once('x').unwrap();
    let (t, k): (usize, usize) = (t.parse().unwrap(), k.parse().unwrap());
    let bound = if t * k > 4 { Some(3) } else { None };
    ctx.group(&format!("loom: substitution ids, {t} threads x {k} ids, preemption bound {bound:?}"), |ctx| {
        let a = attrs(&[("kind", "loom"), ("class", "result_depends_on_cache"), ("last_action", "new_substitution_id")]);
        let case = || json!({"unit": "oxidd-core/src/util/substitution.rs new_substitution_id", "threads": t, "ids_per_thread": k, "preemption_bound": bound, "derived_source": loomunits::SUBST_ID_SRC});
        if let Some(n) = ctx.guarded(&a, case, || loomunits::check_subst_ids(t, k, bound)) {
            ctx.count("evaluations", n as u64);
            ctx.count("executions", n as u64);
            ctx.count("nontrivial", n as u64);
            ctx.count("transitions", n as u64);
            ctx.outcome(&format!("loom:substid:{cfg}={n} executions"));
        }
        ctx.sample(case);
    });
}
