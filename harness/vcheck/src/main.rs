mod capi;
mod checks;
mod dd;
mod hist;
mod driver;
mod model;
mod mtbdd;
mod proto;
mod sched;
mod tdd;

fn main() {
    let args: Vec<String> = std::env::args().collect();
    if args.len() < 2 {
        eprintln!("usage: vcheck run <PROP> [--tier quick|thorough] | worker <PROP> <SHARD> [--tier T] [--from N] [--only N] | replay <file> | shards <PROP> [--tier T]");
        std::process::exit(2);
    }
    let opt = |name: &str| -> Option<String> {
        args.iter().position(|a| a == name).and_then(|i| args.get(i + 1).cloned())
    };
    let tier = opt("--tier").or_else(|| std::env::var("VERIF_TIER").ok()).unwrap_or_else(|| "quick".into());
    match args[1].as_str() {
        "run" => {
            let code = driver::run(&args[2], &tier);
            std::process::exit(code);
        }
        "shards" => {
            for s in checks::shards(&args[2], &tier) {
                println!("{s}");
            }
        }
        "worker" => {
            proto::install_panic_hook();
            let from: u64 = opt("--from").and_then(|s| s.parse().ok()).unwrap_or(0);
            let only: Option<u64> = opt("--only").and_then(|s| s.parse().ok());
            let mut ctx = proto::Ctx::new(&args[2], &args[3], &tier, only, from);
            checks::run_shard(&mut ctx);
            ctx.finish();
        }
        "replay" => {
            std::process::exit(driver::replay(&args[2]));
        }
        _ => {
            eprintln!("unknown subcommand");
            std::process::exit(2);
        }
    }
}
