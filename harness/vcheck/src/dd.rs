//! Adapters over the real library: per-kind raw-structure interpreter (my own
//! reading of the stored diagram through `Manager::get_node` only), a
//! table -> diagram builder that goes through `DiagramRules::reduce` +
//! `then_insert` (not through the apply operators under test) and the
//! structural / reference-count auditor.

#![allow(dead_code)]

use std::collections::{BTreeMap, BTreeSet};

use oxidd::bcdd::{BCDDFunction, BCDDManagerRef};
use oxidd::bdd::{BDDFunction, BDDManagerRef};
use oxidd::zbdd::{ZBDDFunction, ZBDDManagerRef};
use oxidd::{
    BooleanFunction, Edge, Function, HasLevel, HasWorkers, InnerNode, LevelNo, Manager, ManagerRef,
    Node, WorkerPool,
};
use oxidd_core::util::AllocResult;
use oxidd_core::{Countable, DiagramRules, LevelView};
use oxidd_rules_bdd::complement_edge::{BCDDTerminal, EdgeTag as BcTag};
use oxidd_rules_bdd::simple::BDDTerminal;
use oxidd_rules_zbdd::ZBDDTerminal;

use crate::model::{self, BKind, Tab};

// ---------------------------------------------------------------------------
// raw dump of the stored graph (public API only)
// ---------------------------------------------------------------------------

#[derive(Clone, Debug, PartialEq, Eq, PartialOrd, Ord)]
pub struct RawEdge {
    pub id: usize,
    pub tag: usize,
    pub term: bool,
}

#[derive(Clone, Debug)]
pub struct RawNode {
    pub id: usize,
    /// level of the LevelView the node was listed in
    pub listed_level: u32,
    /// level the node reports
    pub level: u32,
    pub children: Vec<RawEdge>,
    pub rc: usize,
}

pub fn raw_edge<M: Manager>(m: &M, e: &M::Edge) -> RawEdge {
    RawEdge {
        id: e.node_id(),
        tag: e.tag().as_usize(),
        term: m.get_node(e).is_any_terminal(),
    }
}

pub fn dump_nodes<M: Manager>(m: &M) -> Vec<RawNode>
where
    M::InnerNode: HasLevel,
{
    let mut out = Vec::new();
    for lv in m.levels() {
        let lno = lv.level_no();
        for e in lv.iter() {
            match m.get_node(e) {
                Node::Inner(node) => {
                    out.push(RawNode {
                        id: e.node_id(),
                        listed_level: lno,
                        level: node.level(),
                        children: node.children().map(|c| raw_edge(m, &*c)).collect(),
                        rc: node.ref_count(),
                    });
                }
                Node::Terminal(_) => out.push(RawNode {
                    id: e.node_id(),
                    listed_level: lno,
                    level: u32::MAX,
                    children: vec![],
                    rc: usize::MAX,
                }),
            }
        }
    }
    out
}

#[derive(Clone, Copy, PartialEq, Eq, Debug)]
pub enum AKind {
    Bdd,
    Bcdd,
    Zbdd,
    Mtbdd,
    Tdd,
}

#[derive(Default, Debug, Clone)]
pub struct AuditInfo {
    pub inner_nodes: usize,
    pub reachable: usize,
    pub errors: Vec<String>,
}

/// Structural and reference-count audit. `roots` are the raw edges of all live
/// handles (with multiplicity). `zbdd_empty` = node id of the Empty terminal
/// (ZBDD only). `check_rc`: evaluate the reference-count equation.
pub fn audit_raw<M: Manager>(
    m: &M,
    kind: AKind,
    roots: &[RawEdge],
    zbdd_empty: Option<usize>,
    zbdd_base: Option<usize>,
    check_rc: bool,
) -> AuditInfo
where
    M::InnerNode: HasLevel,
{
    let mut info = AuditInfo::default();
    let nodes = dump_nodes(m);
    let n = m.num_levels();
    if m.num_vars() != n {
        info.errors.push(format!("num_vars {} != num_levels {}", m.num_vars(), n));
    }
    // var <-> level maps mutually inverse permutations
    let mut seen = vec![false; n as usize];
    for v in 0..n {
        let l = m.var_to_level(v);
        if l >= n {
            info.errors.push(format!("var_to_level({v}) = {l} out of range"));
            continue;
        }
        if seen[l as usize] {
            info.errors.push(format!("level {l} assigned to two variables"));
        }
        seen[l as usize] = true;
        let v2 = m.level_to_var(l);
        if v2 != v {
            info.errors.push(format!("level_to_var(var_to_level({v})) = {v2}"));
        }
    }
    let mut by_id: BTreeMap<usize, &RawNode> = BTreeMap::new();
    for nd in &nodes {
        if nd.level == u32::MAX {
            info.errors.push(format!("terminal {} listed in level {}", nd.id, nd.listed_level));
            continue;
        }
        if by_id.insert(nd.id, nd).is_some() {
            info.errors.push(format!("node {} listed twice", nd.id));
        }
        if nd.level != nd.listed_level {
            info.errors.push(format!(
                "node {} reports level {} but is listed in level {}",
                nd.id, nd.level, nd.listed_level
            ));
        }
    }
    info.inner_nodes = by_id.len();
    let reported = m.num_inner_nodes();
    if reported != by_id.len() {
        info.errors.push(format!(
            "num_inner_nodes() = {reported} but {} nodes are listed in the levels",
            by_id.len()
        ));
    }
    // children strictly below, reduction rules, duplicates
    let mut dup: BTreeSet<(u32, Vec<RawEdge>)> = BTreeSet::new();
    for nd in by_id.values() {
        for c in &nd.children {
            if !c.term {
                match by_id.get(&c.id) {
                    None => info.errors.push(format!(
                        "node {} (level {}) has a child {} that is not stored",
                        nd.id, nd.level, c.id
                    )),
                    Some(cn) => {
                        if cn.level <= nd.level {
                            info.errors.push(format!(
                                "node {} at level {} has child {} at level {} (not strictly below)",
                                nd.id, nd.level, c.id, cn.level
                            ));
                        }
                    }
                }
            }
        }
        match kind {
            AKind::Bdd | AKind::Mtbdd => {
                if nd.children.len() != 2 || nd.children[0] == nd.children[1] {
                    info.errors.push(format!("node {} is redundant (then == else)", nd.id));
                }
                if nd.children.iter().any(|c| c.tag != 0) {
                    info.errors.push(format!("node {} has a tagged child", nd.id));
                }
            }
            AKind::Bcdd => {
                if nd.children.len() != 2 || nd.children[0] == nd.children[1] {
                    info.errors.push(format!("node {} is redundant (then == else)", nd.id));
                }
                if nd.children[0].tag != 0 {
                    info.errors.push(format!("node {} has a complemented then-edge", nd.id));
                }
            }
            AKind::Zbdd => {
                if nd.children.len() != 2 || (nd.children[0].term && Some(nd.children[0].id) == zbdd_empty)
                {
                    info.errors.push(format!("node {} has hi = empty (not zero-suppressed)", nd.id));
                }
                if nd.children.iter().any(|c| c.tag != 0) {
                    info.errors.push(format!("node {} has a tagged child", nd.id));
                }
            }
            AKind::Tdd => {
                if nd.children.len() != 3
                    || (nd.children[0] == nd.children[1] && nd.children[1] == nd.children[2])
                {
                    info.errors.push(format!("node {} is redundant (all children equal)", nd.id));
                }
                if nd.children.iter().any(|c| c.tag != 0) {
                    info.errors.push(format!("node {} has a tagged child", nd.id));
                }
            }
        }
        if !dup.insert((nd.level, nd.children.clone())) {
            info.errors.push(format!(
                "two nodes at level {} with identical children {:?}",
                nd.level, nd.children
            ));
        }
    }
    // reference counts
    let mut expected: BTreeMap<usize, usize> = BTreeMap::new();
    for r in roots {
        if !r.term {
            *expected.entry(r.id).or_default() += 1;
            if !by_id.contains_key(&r.id) {
                info.errors.push(format!("live handle points to node {} that is not stored", r.id));
            }
        }
    }
    for nd in by_id.values() {
        for c in &nd.children {
            if !c.term {
                *expected.entry(c.id).or_default() += 1;
            }
        }
    }
    let mut manager_held: BTreeSet<usize> = BTreeSet::new();
    if kind == AKind::Zbdd {
        // tautology chain: bottom-up, node (l, [prev, prev])
        if let Some(base) = zbdd_base {
            let mut prev = RawEdge { id: base, tag: 0, term: true };
            for l in (0..n).rev() {
                let found = by_id
                    .values()
                    .find(|nd| nd.level == l && nd.children.len() == 2 && nd.children[0] == prev && nd.children[1] == prev);
                match found {
                    Some(nd) => {
                        manager_held.insert(nd.id);
                        *expected.entry(nd.id).or_default() += 1;
                        prev = RawEdge { id: nd.id, tag: 0, term: false };
                    }
                    None => {
                        info.errors.push(format!("ZBDD tautology node for level {l} is missing"));
                        break;
                    }
                }
            }
        }
    }
    if check_rc {
        for nd in by_id.values() {
            let exp = expected.get(&nd.id).copied().unwrap_or(0);
            if nd.rc != exp {
                info.errors.push(format!(
                    "node {} (level {}): ref_count() = {} but {} live handles/parent edges/manager references point to it",
                    nd.id, nd.level, nd.rc, exp
                ));
            }
        }
    }
    // reachable set from roots + manager-held
    let mut reach: BTreeSet<usize> = BTreeSet::new();
    let mut stack: Vec<usize> = roots.iter().filter(|r| !r.term).map(|r| r.id).collect();
    stack.extend(manager_held.iter().copied());
    while let Some(id) = stack.pop() {
        if reach.insert(id) {
            if let Some(nd) = by_id.get(&id) {
                for c in &nd.children {
                    if !c.term {
                        stack.push(c.id);
                    }
                }
            }
        }
    }
    info.reachable = reach.len();
    info
}

// ---------------------------------------------------------------------------
// interpreters: table of an edge, from the raw structure
// ---------------------------------------------------------------------------

fn check_level(level: u32, above: Option<u32>, n: u32) -> Result<(), String> {
    if level >= n {
        return Err(format!("node level {level} out of range (num_levels {n})"));
    }
    if let Some(a) = above {
        if level <= a {
            return Err(format!("child level {level} not below parent level {a}"));
        }
    }
    Ok(())
}

pub fn bdd_table<M>(m: &M, e: &M::Edge, n: u32, above: Option<u32>) -> Result<Tab, String>
where
    M: Manager<Terminal = BDDTerminal>,
    M::InnerNode: HasLevel,
{
    match m.get_node(e) {
        Node::Terminal(t) => {
            use std::borrow::Borrow;
            Ok(if *t.borrow() == BDDTerminal::True { model::full(n) } else { 0 })
        }
        Node::Inner(node) => {
            let l = node.level();
            check_level(l, above, n)?;
            let v = m.level_to_var(l);
            let mut it = node.children();
            let t = bdd_table(m, &*it.next().unwrap(), n, Some(l))?;
            let el = bdd_table(m, &*it.next().unwrap(), n, Some(l))?;
            let mv = model::var_tab(v, n);
            Ok((t & mv) | (el & !mv))
        }
    }
}

pub fn bcdd_table<M>(m: &M, e: &M::Edge, n: u32, above: Option<u32>) -> Result<Tab, String>
where
    M: Manager<Terminal = BCDDTerminal, EdgeTag = BcTag>,
    M::InnerNode: HasLevel,
{
    let inner = match m.get_node(e) {
        Node::Terminal(_) => model::full(n),
        Node::Inner(node) => {
            let l = node.level();
            check_level(l, above, n)?;
            let v = m.level_to_var(l);
            let mut it = node.children();
            let t = bcdd_table(m, &*it.next().unwrap(), n, Some(l))?;
            let el = bcdd_table(m, &*it.next().unwrap(), n, Some(l))?;
            let mv = model::var_tab(v, n);
            (t & mv) | (el & !mv)
        }
    };
    Ok(if e.tag() == BcTag::Complemented { !inner & model::full(n) } else { inner })
}

/// ZBDD: the family (= Boolean function over all n variables) denoted by `e`.
pub fn zbdd_table<M>(m: &M, e: &M::Edge, n: u32, above: Option<u32>) -> Result<Tab, String>
where
    M: Manager<Terminal = ZBDDTerminal>,
    M::InnerNode: HasLevel,
{
    match m.get_node(e) {
        Node::Terminal(t) => {
            use std::borrow::Borrow;
            Ok(if *t.borrow() == ZBDDTerminal::Base { 1 } else { 0 })
        }
        Node::Inner(node) => {
            let l = node.level();
            check_level(l, above, n)?;
            let v = m.level_to_var(l);
            let mut it = node.children();
            let hi = zbdd_table(m, &*it.next().unwrap(), n, Some(l))?;
            let lo = zbdd_table(m, &*it.next().unwrap(), n, Some(l))?;
            if hi & model::var_tab(v, n) != 0 || lo & model::var_tab(v, n) != 0 {
                return Err(format!("ZBDD child of a node for variable {v} contains {v}"));
            }
            Ok(model::fam_node(v, hi, lo, n))
        }
    }
}

// ---------------------------------------------------------------------------
// builders: table -> diagram through reduce/then_insert
// ---------------------------------------------------------------------------

fn reduce_insert<M: Manager>(m: &M, level: LevelNo, t: M::Edge, e: M::Edge) -> AllocResult<M::Edge> {
    <M::Rules as DiagramRules<_, _, _>>::reduce(m, level, [t, e]).then_insert(m, level)
}

pub fn bdd_build<M>(m: &M, t: Tab, n: u32, level: u32) -> AllocResult<M::Edge>
where
    M: Manager<Terminal = BDDTerminal>,
{
    if t == 0 {
        return m.get_terminal(BDDTerminal::False);
    }
    if t == model::full(n) {
        return m.get_terminal(BDDTerminal::True);
    }
    assert!(level < n);
    let v = m.level_to_var(level);
    let hi = bdd_build(m, model::cofactor(t, v, true, n), n, level + 1)?;
    let lo = match bdd_build(m, model::cofactor(t, v, false, n), n, level + 1) {
        Ok(e) => e,
        Err(err) => {
            m.drop_edge(hi);
            return Err(err);
        }
    };
    reduce_insert(m, level, hi, lo)
}

pub fn bcdd_build<M>(m: &M, t: Tab, n: u32, level: u32) -> AllocResult<M::Edge>
where
    M: Manager<Terminal = BCDDTerminal, EdgeTag = BcTag>,
{
    if t == 0 {
        return Ok(m.get_terminal(BCDDTerminal)?.with_tag_owned(BcTag::Complemented));
    }
    if t == model::full(n) {
        return m.get_terminal(BCDDTerminal);
    }
    assert!(level < n);
    let v = m.level_to_var(level);
    let hi = bcdd_build(m, model::cofactor(t, v, true, n), n, level + 1)?;
    let lo = match bcdd_build(m, model::cofactor(t, v, false, n), n, level + 1) {
        Ok(e) => e,
        Err(err) => {
            m.drop_edge(hi);
            return Err(err);
        }
    };
    reduce_insert(m, level, hi, lo)
}

pub fn zbdd_build<M>(m: &M, t: Tab, n: u32, level: u32) -> AllocResult<M::Edge>
where
    M: Manager<Terminal = ZBDDTerminal>,
{
    if t == 0 {
        return m.get_terminal(ZBDDTerminal::Empty);
    }
    if t == 1 {
        return m.get_terminal(ZBDDTerminal::Base);
    }
    assert!(level < n, "family {t:#x} mentions a variable above level {level}");
    let v = m.level_to_var(level);
    let hi = zbdd_build(m, model::fam_subset1(t, v, n), n, level + 1)?;
    let lo = match zbdd_build(m, model::fam_subset0(t, v, n), n, level + 1) {
        Ok(e) => e,
        Err(err) => {
            m.drop_edge(hi);
            return Err(err);
        }
    };
    reduce_insert(m, level, hi, lo)
}

// ---------------------------------------------------------------------------
// Boolean kinds behind one trait
// ---------------------------------------------------------------------------

pub type MRefOf<K> = <<K as BoolKind>::F as Function>::ManagerRef;

pub trait BoolKind: 'static {
    type F: BooleanFunction + Send + Sync + 'static;
    const NAME: &'static str;
    const BK: BKind;
    const AK: AKind;
    fn new_manager(nodes: usize, cache: usize, threads: u32) -> MRefOf<Self>;
    fn set_split_depth(mref: &MRefOf<Self>, depth: Option<u32>);
    /// interpreter: the table denoted by the handle (n = number of variables)
    fn table(f: &Self::F) -> Result<Tab, String>;
    fn num_vars(mref: &MRefOf<Self>) -> u32;
    /// route A: from a table, bottom-up through reduce/then_insert
    fn build(mref: &MRefOf<Self>, t: Tab) -> AllocResult<Self::F>;
    fn audit(mref: &MRefOf<Self>, live: &[&Self::F], check_rc: bool) -> AuditInfo;
    fn set_order(mref: &MRefOf<Self>, order: &[u32]);
    /// `oxidd_reorder::level_down` inside `Manager::reorder` (public API for single adjacent swaps)
    fn level_down(mref: &MRefOf<Self>, level: u32);
    fn raw(f: &Self::F) -> RawEdge;
}

pub struct Bdd;
pub struct Bcdd;
pub struct Zbdd;

impl BoolKind for Bdd {
    type F = BDDFunction;
    const NAME: &'static str = "bdd";
    const BK: BKind = BKind::Bdd;
    const AK: AKind = AKind::Bdd;
    fn new_manager(nodes: usize, cache: usize, threads: u32) -> BDDManagerRef {
        oxidd::bdd::new_manager(nodes, cache, threads)
    }
    fn set_split_depth(mref: &BDDManagerRef, depth: Option<u32>) {
        mref.workers().set_split_depth(depth)
    }
    fn table(f: &BDDFunction) -> Result<Tab, String> {
        f.with_manager_shared(|m, e| bdd_table(m, e, m.num_levels(), None))
    }
    fn num_vars(mref: &BDDManagerRef) -> u32 {
        mref.with_manager_shared(|m| m.num_vars())
    }
    fn build(mref: &BDDManagerRef, t: Tab) -> AllocResult<BDDFunction> {
        mref.with_manager_shared(|m| Ok(BDDFunction::from_edge(m, bdd_build(m, t, m.num_levels(), 0)?)))
    }
    fn audit(mref: &BDDManagerRef, live: &[&BDDFunction], check_rc: bool) -> AuditInfo {
        mref.with_manager_shared(|m| {
            let roots: Vec<RawEdge> = live.iter().map(|f| raw_edge(m, f.as_edge(m))).collect();
            audit_raw(m, AKind::Bdd, &roots, None, None, check_rc)
        })
    }
    fn set_order(mref: &BDDManagerRef, order: &[u32]) {
        mref.with_manager_exclusive(|m| oxidd_reorder::set_var_order(m, order))
    }
    fn level_down(mref: &BDDManagerRef, level: u32) {
        mref.with_manager_exclusive(|m| m.reorder(|m| unsafe { oxidd_reorder::level_down(&*m, level) }))
    }
    fn raw(f: &BDDFunction) -> RawEdge {
        f.with_manager_shared(|m, e| raw_edge(m, e))
    }
}

impl BoolKind for Bcdd {
    type F = BCDDFunction;
    const NAME: &'static str = "bcdd";
    const BK: BKind = BKind::Bcdd;
    const AK: AKind = AKind::Bcdd;
    fn new_manager(nodes: usize, cache: usize, threads: u32) -> BCDDManagerRef {
        oxidd::bcdd::new_manager(nodes, cache, threads)
    }
    fn set_split_depth(mref: &BCDDManagerRef, depth: Option<u32>) {
        mref.workers().set_split_depth(depth)
    }
    fn table(f: &BCDDFunction) -> Result<Tab, String> {
        f.with_manager_shared(|m, e| bcdd_table(m, e, m.num_levels(), None))
    }
    fn num_vars(mref: &BCDDManagerRef) -> u32 {
        mref.with_manager_shared(|m| m.num_vars())
    }
    fn build(mref: &BCDDManagerRef, t: Tab) -> AllocResult<BCDDFunction> {
        mref.with_manager_shared(|m| Ok(BCDDFunction::from_edge(m, bcdd_build(m, t, m.num_levels(), 0)?)))
    }
    fn audit(mref: &BCDDManagerRef, live: &[&BCDDFunction], check_rc: bool) -> AuditInfo {
        mref.with_manager_shared(|m| {
            let roots: Vec<RawEdge> = live.iter().map(|f| raw_edge(m, f.as_edge(m))).collect();
            audit_raw(m, AKind::Bcdd, &roots, None, None, check_rc)
        })
    }
    fn set_order(mref: &BCDDManagerRef, order: &[u32]) {
        mref.with_manager_exclusive(|m| oxidd_reorder::set_var_order(m, order))
    }
    fn level_down(mref: &BCDDManagerRef, level: u32) {
        mref.with_manager_exclusive(|m| m.reorder(|m| unsafe { oxidd_reorder::level_down(&*m, level) }))
    }
    fn raw(f: &BCDDFunction) -> RawEdge {
        f.with_manager_shared(|m, e| raw_edge(m, e))
    }
}

pub fn zbdd_terminal_ids<M: Manager<Terminal = ZBDDTerminal>>(m: &M) -> (usize, usize) {
    let e = m.get_terminal(ZBDDTerminal::Empty).unwrap();
    let b = m.get_terminal(ZBDDTerminal::Base).unwrap();
    let r = (e.node_id(), b.node_id());
    m.drop_edge(e);
    m.drop_edge(b);
    r
}

impl BoolKind for Zbdd {
    type F = ZBDDFunction;
    const NAME: &'static str = "zbdd";
    const BK: BKind = BKind::Zbdd;
    const AK: AKind = AKind::Zbdd;
    fn new_manager(nodes: usize, cache: usize, threads: u32) -> ZBDDManagerRef {
        oxidd::zbdd::new_manager(nodes, cache, threads)
    }
    fn set_split_depth(mref: &ZBDDManagerRef, depth: Option<u32>) {
        mref.workers().set_split_depth(depth)
    }
    fn table(f: &ZBDDFunction) -> Result<Tab, String> {
        f.with_manager_shared(|m, e| zbdd_table(m, e, m.num_levels(), None))
    }
    fn num_vars(mref: &ZBDDManagerRef) -> u32 {
        mref.with_manager_shared(|m| m.num_vars())
    }
    fn build(mref: &ZBDDManagerRef, t: Tab) -> AllocResult<ZBDDFunction> {
        mref.with_manager_shared(|m| Ok(ZBDDFunction::from_edge(m, zbdd_build(m, t, m.num_levels(), 0)?)))
    }
    fn audit(mref: &ZBDDManagerRef, live: &[&ZBDDFunction], check_rc: bool) -> AuditInfo {
        mref.with_manager_shared(|m| {
            let roots: Vec<RawEdge> = live.iter().map(|f| raw_edge(m, f.as_edge(m))).collect();
            let (e, b) = zbdd_terminal_ids(m);
            audit_raw(m, AKind::Zbdd, &roots, Some(e), Some(b), check_rc)
        })
    }
    fn set_order(mref: &ZBDDManagerRef, order: &[u32]) {
        mref.with_manager_exclusive(|m| oxidd_reorder::set_var_order(m, order))
    }
    fn level_down(mref: &ZBDDManagerRef, level: u32) {
        mref.with_manager_exclusive(|m| m.reorder(|m| unsafe { oxidd_reorder::level_down(&*m, level) }))
    }
    fn raw(f: &ZBDDFunction) -> RawEdge {
        f.with_manager_shared(|m, e| raw_edge(m, e))
    }
}

/// Create a manager with `n` variables in the given initial order
/// (`order[level] = var`). The order is established *before* any node exists
/// (reordering an empty manager only permutes the level maps), so that the
/// checks that do not target reordering do not depend on its node-moving code.
pub fn fresh<K: BoolKind>(n: u32, order: &[u32], nodes: usize, cache: usize, threads: u32) -> MRefOf<K> {
    crate::proto::throttle_threads();
    let mref = K::new_manager(nodes, cache, threads);
    mref.with_manager_exclusive(|m| {
        m.add_vars(n);
    });
    let ident: Vec<u32> = (0..n).collect();
    if order != ident.as_slice() {
        K::set_order(&mref, order);
    }
    let got: Vec<u32> = mref.with_manager_shared(|m| (0..n).map(|l| m.level_to_var(l)).collect());
    assert_eq!(got, order, "harness: initial order could not be established");
    mref
}

/// `cfg(oxidd_verif)` hook of oxidd-reorder: make `set_var_order` take the concurrent bubble sort /
/// parallel level update regardless of the diagram size (it is otherwise only used from 65536 nodes on)
pub fn force_concurrent_reorder(on: bool) {
    oxidd_reorder::VERIF_FORCE_CONCURRENT.store(on, std::sync::atomic::Ordering::Relaxed);
}
