//! Driver: enumerates shards, runs them in crash-proof worker processes,
//! attributes worker deaths, matches known findings, writes replay artefacts and
//! the evidence file, prints the verdict lines.

use std::collections::BTreeMap;
use std::io::{BufRead, BufReader, Read};
use std::process::{Command, Stdio};
use std::sync::{Arc, Mutex};
use std::time::{Duration, Instant};

use serde_json::{Value, json};

use crate::checks;

pub struct Meta {
    pub level: &'static str,
    pub rule: &'static str,
    pub assumptions: Vec<String>,
    pub hang_is_violation: bool,
    /// per-shard wall-clock cap in seconds (quick, thorough)
    pub shard_timeout: (u64, u64),
}

#[derive(Default)]
struct ShardResult {
    viols: Vec<Value>,
    counters: BTreeMap<String, u64>,
    outcomes: BTreeMap<String, u64>,
    samples: Vec<Value>,
    total_viol: u64,
    distinct_states: u64,
    by_sig: BTreeMap<String, u64>,
    machinery: Vec<String>,
    capped: bool,
    crashes: u64,
}

fn verif_root() -> String {
    std::env::var("VERIF_ROOT").unwrap_or_else(|_| "/verif".into())
}

fn run_worker_once(
    prop: &str,
    shard: &str,
    tier: &str,
    from: u64,
    only: Option<u64>,
    timeout: Duration,
) -> (ShardResult, Option<(u64, String)>, String, bool, Option<i32>) {
    // returns (result, last begun-but-not-ended group, stderr tail, timed_out, exit code)
    let exe = std::env::current_exe().unwrap();
    let mut cmd = Command::new(exe);
    cmd.arg("worker").arg(prop).arg(shard).arg("--tier").arg(tier).arg("--from").arg(from.to_string());
    if let Some(o) = only {
        cmd.arg("--only").arg(o.to_string());
    }
    // worker threads of the library default to 1 GiB stacks; the diagrams here are tiny
    if std::env::var("OXIDD_STACK_SIZE").is_err() {
        cmd.env("OXIDD_STACK_SIZE", (16 * 1024 * 1024).to_string());
    }
    cmd.stdin(Stdio::null()).stdout(Stdio::piped()).stderr(Stdio::piped());
    let mut child = cmd.spawn().expect("spawn worker");
    let stdout = child.stdout.take().unwrap();
    let stderr = child.stderr.take().unwrap();
    let errbuf = Arc::new(Mutex::new(Vec::<u8>::new()));
    let eb = errbuf.clone();
    let th_err = std::thread::spawn(move || {
        let mut r = stderr;
        let mut buf = [0u8; 4096];
        loop {
            match r.read(&mut buf) {
                Ok(0) | Err(_) => break,
                Ok(n) => {
                    let mut g = eb.lock().unwrap();
                    g.extend_from_slice(&buf[..n]);
                    let len = g.len();
                    if len > 16384 {
                        g.drain(..len - 16384);
                    }
                }
            }
        }
    });
    let res = Arc::new(Mutex::new((ShardResult::default(), None::<(u64, String)>)));
    let r2 = res.clone();
    let th_out = std::thread::spawn(move || {
        let rd = BufReader::new(stdout);
        for line in rd.lines() {
            let Ok(line) = line else { break };
            let mut g = r2.lock().unwrap();
            if let Some(rest) = line.strip_prefix("B ") {
                let mut it = rest.splitn(2, ' ');
                let n: u64 = it.next().unwrap_or("0").parse().unwrap_or(0);
                g.1 = Some((n, it.next().unwrap_or("").to_string()));
            } else if line.starts_with("E ") {
                g.1 = None;
            } else if let Some(rest) = line.strip_prefix("V ") {
                if let Ok(v) = serde_json::from_str::<Value>(rest) {
                    g.0.viols.push(v);
                }
            } else if let Some(rest) = line.strip_prefix("M ") {
                g.0.machinery.push(rest.to_string());
            } else if let Some(rest) = line.strip_prefix("S ") {
                if let Ok(v) = serde_json::from_str::<Value>(rest) {
                    if g.0.samples.len() < 3 {
                        g.0.samples.push(v);
                    }
                }
            } else if let Some(rest) = line.strip_prefix("C ") {
                if let Ok(v) = serde_json::from_str::<Value>(rest) {
                    if let Some(o) = v["counters"].as_object() {
                        for (k, x) in o {
                            *g.0.counters.entry(k.clone()).or_default() += x.as_u64().unwrap_or(0);
                        }
                    }
                    if let Some(o) = v["outcomes"].as_object() {
                        for (k, x) in o {
                            *g.0.outcomes.entry(k.clone()).or_default() += x.as_u64().unwrap_or(0);
                        }
                    }
                    if let Some(o) = v["by_signature"].as_object() {
                        for (k, x) in o {
                            *g.0.by_sig.entry(k.clone()).or_default() += x.as_u64().unwrap_or(0);
                        }
                    }
                    g.0.total_viol += v["violations"].as_u64().unwrap_or(0);
                    g.0.distinct_states += v["distinct_states"].as_u64().unwrap_or(0);
                }
            }
        }
    });
    let start = Instant::now();
    let mut timed_out = false;
    let status = loop {
        match child.try_wait() {
            Ok(Some(st)) => break Some(st),
            Ok(None) => {
                if start.elapsed() > timeout {
                    let _ = child.kill();
                    timed_out = true;
                    break child.wait().ok();
                }
                std::thread::sleep(Duration::from_millis(5));
            }
            Err(_) => break None,
        }
    };
    let _ = th_out.join();
    let _ = th_err.join();
    let code = status.and_then(|s| s.code());
    let tail = String::from_utf8_lossy(&errbuf.lock().unwrap()).to_string();
    let mut g = res.lock().unwrap();
    let r = std::mem::take(&mut g.0);
    let pending = g.1.clone();
    (r, pending, tail, timed_out, code)
}

fn merge(into: &mut ShardResult, r: ShardResult) {
    into.viols.extend(r.viols);
    for (k, v) in r.counters {
        *into.counters.entry(k).or_default() += v;
    }
    for (k, v) in r.outcomes {
        *into.outcomes.entry(k).or_default() += v;
    }
    for (k, v) in r.by_sig {
        *into.by_sig.entry(k).or_default() += v;
    }
    for s in r.samples {
        if into.samples.len() < 3 {
            into.samples.push(s);
        }
    }
    into.total_viol += r.total_viol;
    into.distinct_states += r.distinct_states;
    into.machinery.extend(r.machinery);
    into.capped |= r.capped;
    into.crashes += r.crashes;
}

fn crash_site(tail: &str) -> (String, String) {
    // last "PANIC at <loc>: <msg>" (from our hook) or last non-empty line
    let mut site = String::new();
    let mut msg = String::new();
    for l in tail.lines() {
        if let Some(rest) = l.strip_prefix("PANIC at ") {
            if let Some((loc, m)) = rest.split_once(": ") {
                site = loc.trim_start_matches("/repo/").to_string();
                msg = m.to_string();
            }
        }
    }
    if site.is_empty() {
        let last = tail.lines().rev().find(|l| !l.trim().is_empty()).unwrap_or("");
        msg = last.to_string();
        site = "<no panic message>".into();
    }
    let lastline = tail.lines().rev().find(|l| !l.trim().is_empty() && !l.starts_with("PANIC at")).unwrap_or("").to_string();
    if !lastline.is_empty() && !msg.contains(&lastline) {
        msg = format!("{msg} | {lastline}");
    }
    (site, msg)
}

fn run_shard(prop: &str, shard: &str, tier: &str, meta: &Meta) -> ShardResult {
    let timeout = Duration::from_secs(if tier == "thorough" { meta.shard_timeout.1 } else { meta.shard_timeout.0 });
    let mut total = ShardResult::default();
    let mut from = 0u64;
    let start = Instant::now();
    loop {
        let remaining = timeout.saturating_sub(start.elapsed());
        let (r, pending, tail, timed_out, code) = run_worker_once(prop, shard, tier, from, None, remaining.max(Duration::from_secs(1)));
        merge(&mut total, r);
        if timed_out {
            let label = pending.as_ref().map(|p| p.1.clone()).unwrap_or_default();
            if meta.hang_is_violation {
                total.total_viol += 1;
                total.viols.push(json!({"attrs": {"hang": "1"}, "case": {"group_label": label}, "msg": format!("no result within {} s", timeout.as_secs()), "group": pending.map(|p| p.0).unwrap_or(0), "shard": shard, "property": prop, "tier": tier}));
            } else {
                total.capped = true;
                total.machinery.push(format!("shard {shard} hit the wall-clock cap of {} s in group {:?}", timeout.as_secs(), label));
            }
            break;
        }
        if code == Some(0) {
            break;
        }
        // abnormal termination
        match pending {
            Some((n, label)) => {
                total.crashes += 1;
                let (site, msg) = crash_site(&tail);
                // confirm by re-running the group alone in a fresh worker
                let (_r2, pending2, tail2, _to2, code2) = run_worker_once(prop, shard, tier, 0, Some(n), Duration::from_secs(120));
                let reproduced = code2 != Some(0) && pending2.is_some();
                if crate::proto::is_env_failure(&tail) || (reproduced && crate::proto::is_env_failure(&tail2)) {
                    total.machinery.push(format!("worker died in group {n} '{label}' from resource exhaustion of the sandbox: {msg}"));
                } else if reproduced {
                    let (site2, _) = crash_site(&tail2);
                    let last = tail2.lines().rev().find(|l| !l.trim().is_empty()).unwrap_or("").chars().take(100).collect::<String>();
                    total.total_viol += 1;
                    total.viols.push(json!({"attrs": {"crash": "1", "site": site2, "stderr": last, "shard": shard}, "case": {"group_label": label}, "msg": format!("worker process died (exit {:?}) in group {n} '{label}': {msg}", code), "group": n, "shard": shard, "property": prop, "tier": tier}));
                } else {
                    total.machinery.push(format!("worker died in group {n} '{label}' (site {site}: {msg}) but the group passed when re-run alone"));
                }
                from = n + 1;
                if total.crashes > 40 {
                    total.capped = true;
                    total.machinery.push(format!("shard {shard}: more than 40 worker deaths, giving up on the rest of the shard"));
                    break;
                }
            }
            None => {
                total.machinery.push(format!("worker for shard {shard} exited with {:?} outside any group: {}", code, tail.lines().rev().take(3).collect::<Vec<_>>().join(" / ")));
                break;
            }
        }
    }
    total
}

fn load_known() -> Vec<Value> {
    let p = format!("{}/known_findings.json", verif_root());
    match std::fs::read_to_string(&p) {
        Ok(s) => serde_json::from_str::<Value>(&s).ok().and_then(|v| v["findings"].as_array().cloned()).unwrap_or_default(),
        Err(_) => vec![],
    }
}

fn matches(entry: &Value, prop: &str, attrs: &Value) -> bool {
    if entry["property"].as_str() != Some(prop) || entry["status"].as_str() != Some("open") {
        return false;
    }
    let Some(m) = entry["match"].as_object() else { return false };
    if m.is_empty() {
        return false;
    }
    m.iter().all(|(k, v)| attrs.get(k).and_then(|x| x.as_str()) == v.as_str())
}

pub fn run(prop: &str, tier: &str) -> i32 {
    let start = Instant::now();
    let Some(meta) = checks::meta(prop) else {
        eprintln!("unknown property {prop}");
        return 2;
    };
    let shards = checks::shards(prop, tier);
    let seed: i64 = std::env::var("VERIF_SEED").ok().and_then(|s| s.parse().ok()).unwrap_or(0);
    let jobs: usize = std::env::var("VERIF_JOBS").ok().and_then(|s| s.parse().ok()).unwrap_or(16);
    let queue = Arc::new(Mutex::new(shards.clone().into_iter().rev().collect::<Vec<String>>()));
    let total = Arc::new(Mutex::new(ShardResult::default()));
    let meta = Arc::new(meta);
    let mut ths = vec![];
    for _ in 0..jobs.min(shards.len().max(1)) {
        let q = queue.clone();
        let t = total.clone();
        let p = prop.to_string();
        let ti = tier.to_string();
        let me = meta.clone();
        ths.push(std::thread::spawn(move || {
            loop {
                let s = { q.lock().unwrap().pop() };
                let Some(s) = s else { break };
                let r = run_shard(&p, &s, &ti, &me);
                let mut tg = t.lock().unwrap();
                merge(&mut tg, r);
                // every hang costs a whole shard timeout: after three of them the verdict (violation)
                // is settled, so the remaining shards are not started and the run is reported as capped
                let hangs = tg.viols.iter().filter(|v| v["attrs"]["hang"].as_str() == Some("1")).count();
                if hangs >= 3 {
                    let mut qg = q.lock().unwrap();
                    if !qg.is_empty() {
                        tg.capped = true;
                        tg.machinery.push(format!("stopped early after {hangs} hanging shards; {} shards not started", qg.len()));
                        qg.clear();
                    }
                }
            }
        }));
    }
    for t in ths {
        let _ = t.join();
    }
    let total = std::mem::take(&mut *total.lock().unwrap());
    let known = load_known();
    let root = verif_root();
    let rdir = format!("{root}/replays/{prop}");
    let _ = std::fs::remove_dir_all(&rdir);
    let _ = std::fs::create_dir_all(&rdir);
    // classify
    let mut known_hits: BTreeMap<usize, (u64, Value)> = BTreeMap::new();
    let mut unmatched: Vec<Value> = vec![];
    for v in &total.viols {
        let mut hit = None;
        for (i, e) in known.iter().enumerate() {
            if matches(e, prop, &v["attrs"]) {
                hit = Some(i);
                break;
            }
        }
        match hit {
            Some(i) => {
                let ent = known_hits.entry(i).or_insert((0, v.clone()));
                ent.0 += 1;
            }
            None => unmatched.push(v.clone()),
        }
    }
    // unmatched: one replay artefact per distinct signature (first = smallest in enumeration order)
    let mut seen_sig: BTreeMap<String, String> = BTreeMap::new();
    let mut lines = vec![];
    let mut idx = 0;
    for v in &unmatched {
        let sig = v["attrs"].to_string();
        if seen_sig.contains_key(&sig) {
            continue;
        }
        let path = format!("{rdir}/{idx}.json");
        idx += 1;
        let _ = std::fs::write(&path, serde_json::to_string_pretty(v).unwrap());
        seen_sig.insert(sig, path.clone());
        lines.push(format!("VIOLATION property={prop} replay={path}  # {}", v["msg"].as_str().unwrap_or("")));
        if idx >= 25 {
            break;
        }
    }
    for (i, (cnt, v)) in &known_hits {
        let path = format!("{rdir}/known_{i}.json");
        let _ = std::fs::write(&path, serde_json::to_string_pretty(v).unwrap());
        println!("KNOWN-FINDING: property={prop} {} (matched {cnt} recorded cases; example {path})", known[*i]["what"].as_str().unwrap_or(""));
    }
    let wall = start.elapsed().as_secs_f64();
    // evidence
    let c = |k: &str| total.counters.get(k).copied().unwrap_or(0);
    let mut coverage = serde_json::Map::new();
    coverage.insert("evaluations".into(), json!(c("evaluations")));
    coverage.insert("distinct_nontrivial".into(), json!(c("nontrivial")));
    coverage.insert("rule".into(), json!(meta.rule));
    coverage.insert("samples".into(), json!(total.samples));
    if meta.level == "model_checking" {
        coverage.insert("states".into(), json!(c("states").max(total.distinct_states)));
        coverage.insert("transitions".into(), json!(c("transitions")));
        coverage.insert("traces_validated_against_impl".into(), json!(c("executions")));
    }
    coverage.insert("exhaustive".into(), json!(!total.capped && total.machinery.is_empty()));
    coverage.insert("capped".into(), json!(total.capped));
    coverage.insert("shards".into(), json!(shards.len()));
    coverage.insert("counters".into(), json!(total.counters));
    coverage.insert("distinct_outcomes".into(), json!(total.outcomes.len()));
    coverage.insert("outcomes".into(), json!(total.outcomes));
    coverage.insert("worker_deaths".into(), json!(total.crashes));
    coverage.insert("violation_signatures".into(), json!(total.by_sig));
    coverage.insert("known_findings_matched".into(), json!(known_hits.len()));
    if !total.machinery.is_empty() {
        coverage.insert("machinery_errors".into(), json!(total.machinery));
    }
    let ev = json!({
        "property_id": prop,
        "tier": tier,
        "seed": seed,
        "level": meta.level,
        "coverage": coverage,
        "assumptions": meta.assumptions,
        "wall_s": wall,
        "violations": unmatched.len(),
    });
    let _ = std::fs::create_dir_all(format!("{root}/evidence"));
    let _ = std::fs::write(format!("{root}/evidence/{prop}.json"), serde_json::to_string_pretty(&ev).unwrap());
    for l in &lines {
        println!("{l}");
    }
    println!(
        "{prop} [{tier}] shards={} evaluations={} nontrivial={} states={} transitions={} violations={} known={} wall={:.1}s{}",
        shards.len(),
        c("evaluations"),
        c("nontrivial"),
        c("states").max(total.distinct_states),
        c("transitions"),
        unmatched.len(),
        known_hits.len(),
        wall,
        if total.capped { " CAPPED" } else { "" }
    );
    if !unmatched.is_empty() {
        return 1;
    }
    if !total.machinery.is_empty() {
        for m in &total.machinery {
            eprintln!("MACHINERY: {m}");
        }
        return 2;
    }
    if c("evaluations") == 0 {
        eprintln!("MACHINERY: nothing was evaluated");
        return 2;
    }
    0
}

/// Re-execute the group of a replay artefact alone and print what it observes.
pub fn replay(path: &str) -> i32 {
    let Ok(s) = std::fs::read_to_string(path) else {
        eprintln!("cannot read {path}");
        return 2;
    };
    let v: Value = serde_json::from_str(&s).unwrap();
    let prop = v["property"].as_str().unwrap_or("");
    let shard = v["shard"].as_str().unwrap_or("");
    let tier = v["tier"].as_str().unwrap_or("quick");
    let group = v["group"].as_u64().unwrap_or(0);
    println!("replaying property={prop} shard={shard} group={group}");
    println!("recorded: {}", v["msg"]);
    println!("recorded case: {}", v["case"]);
    let (r, pending, tail, _to, code) = run_worker_once(prop, shard, tier, 0, Some(group), Duration::from_secs(600));
    let mut reproduced = false;
    for w in &r.viols {
        if w["attrs"] == v["attrs"] {
            reproduced = true;
            println!("REPRODUCED: {}", w["msg"]);
            println!("  case: {}", w["case"]);
            break;
        }
    }
    if !reproduced && code != Some(0) && pending.is_some() {
        let (site, msg) = crash_site(&tail);
        println!("REPRODUCED (worker death): site {site}: {msg}");
        reproduced = true;
    }
    if !reproduced {
        println!("not reproduced ({} other violations in the group)", r.viols.len());
        for w in r.viols.iter().take(5) {
            println!("  other: {}", w["msg"]);
        }
        return 0;
    }
    1
}
