//! Worker-side context: case groups, violation records, coverage counters.
//! Line protocol on stdout (one JSON document per line after a 2-char tag):
//!   `B <n> <label>`  group n begins          `E <n>` group n ended
//!   `V <json>`       violation               `C <json>` counters (once, at the end)
//!   `S <json>`       sample case

#![allow(dead_code)]

use std::collections::{BTreeMap, BTreeSet};
use std::io::Write;
use std::panic::{AssertUnwindSafe, catch_unwind};
use std::sync::Mutex;

use serde_json::{Value, json};

pub static LAST_PANIC: Mutex<Option<(String, String)>> = Mutex::new(None);

pub fn install_panic_hook() {
    std::panic::set_hook(Box::new(|info| {
        let msg = if let Some(s) = info.payload().downcast_ref::<&str>() {
            s.to_string()
        } else if let Some(s) = info.payload().downcast_ref::<String>() {
            s.clone()
        } else {
            "<non-string panic payload>".to_string()
        };
        let loc = info
            .location()
            .map(|l| format!("{}:{}", l.file(), l.line()))
            .unwrap_or_else(|| "<unknown>".into());
        // also to stderr so that the driver can attribute aborts that follow a panic
        if QUIET.load(std::sync::atomic::Ordering::SeqCst) == 0 {
            eprintln!("PANIC at {loc}: {msg}");
        }
        if let Ok(mut g) = LAST_PANIC.lock() {
            *g = Some((loc, msg));
        }
    }));
}

pub static QUIET: std::sync::atomic::AtomicUsize = std::sync::atomic::AtomicUsize::new(0);
pub struct QuietGuard;
impl Drop for QuietGuard {
    fn drop(&mut self) {
        QUIET.fetch_sub(1, std::sync::atomic::Ordering::SeqCst);
    }
}
/// while the guard lives, expected panics (calls documented to panic, run under catch_unwind) are not echoed
pub fn quiet_panics() -> QuietGuard {
    QUIET.fetch_add(1, std::sync::atomic::Ordering::SeqCst);
    QuietGuard
}

/// panics that stem from the sandbox running out of threads / address space
pub fn is_env_failure(msg: &str) -> bool {
    msg.contains("Resource temporarily unavailable") || msg.contains("could not build thread pool") || msg.contains("WouldBlock") || msg.contains("failed to spawn thread") || msg.contains("Cannot allocate memory")
}

pub fn take_panic() -> (String, String) {
    LAST_PANIC
        .lock()
        .ok()
        .and_then(|mut g| g.take())
        .unwrap_or_else(|| ("<unknown>".into(), "<unknown>".into()))
}

/// strip the /repo prefix and line numbers stay: "crates/x/src/y.rs:12"
pub fn short_site(loc: &str) -> String {
    loc.trim_start_matches("/repo/").to_string()
}

#[derive(Clone, Debug)]
pub struct Viol {
    pub attrs: BTreeMap<String, String>,
    pub case: Value,
    pub msg: String,
}

pub fn attrs(pairs: &[(&str, &str)]) -> BTreeMap<String, String> {
    pairs.iter().map(|(k, v)| (k.to_string(), v.to_string())).collect()
}

pub struct Ctx {
    pub prop: String,
    pub shard: String,
    /// the shard name the worker was started with (checks that delegate rewrite `shard`)
    pub shard0: String,
    pub tier: String,
    pub only: Option<u64>,
    pub from: u64,
    group: u64,
    active: bool,
    counters: BTreeMap<String, u64>,
    outcomes: BTreeMap<String, u64>,
    samples: usize,
    sigs: BTreeMap<String, u64>,
    pub nviol: u64,
    pub max_per_sig: u64,
    distinct: BTreeSet<u64>,
}

impl Ctx {
    pub fn new(prop: &str, shard: &str, tier: &str, only: Option<u64>, from: u64) -> Self {
        Ctx {
            prop: prop.into(),
            shard: shard.into(),
            shard0: shard.into(),
            tier: tier.into(),
            only,
            from,
            group: 0,
            active: false,
            counters: BTreeMap::new(),
            outcomes: BTreeMap::new(),
            samples: 0,
            sigs: BTreeMap::new(),
            nviol: 0,
            max_per_sig: 2,
            distinct: BTreeSet::new(),
        }
    }
    pub fn thorough(&self) -> bool {
        self.tier == "thorough"
    }

    /// Run one case group. Groups are numbered in enumeration order; a group is
    /// self-contained (creates its own managers), so that it can be re-executed
    /// alone for replay and so that a crash loses only this group.
    pub fn group(&mut self, label: &str, f: impl FnOnce(&mut Ctx)) {
        let n = self.group;
        self.group += 1;
        if n < self.from {
            return;
        }
        if let Some(o) = self.only {
            if o != n {
                return;
            }
        }
        {
            let mut out = std::io::stdout().lock();
            let _ = writeln!(out, "B {n} {label}");
            let _ = out.flush();
        }
        self.active = true;
        let r = catch_unwind(AssertUnwindSafe(|| f(self)));
        if r.is_err() {
            let (loc, msg) = take_panic();
            let site = short_site(&loc);
            let first = msg.lines().next().unwrap_or("").to_string();
            if is_env_failure(&msg) {
                // resource exhaustion of the sandbox (threads / address space), not a verdict
                let mut out = std::io::stdout().lock();
                let _ = writeln!(out, "M environment failure in group {n} '{label}' at {site}: {first}");
                let _ = out.flush();
            } else {
                self.viol(
                    attrs(&[("panic", "1"), ("site", &site)]),
                    json!({"group_label": label}),
                    &format!("panic at {site} in group '{label}': {first}"),
                );
            }
        }
        self.active = false;
        let mut out = std::io::stdout().lock();
        let _ = writeln!(out, "E {n}");
        let _ = out.flush();
    }

    /// Run a closure, turning a panic of the subject into a violation record
    /// with the given case description. Returns None if it panicked.
    pub fn guarded<T>(
        &mut self,
        base_attrs: &BTreeMap<String, String>,
        case: impl FnOnce() -> Value,
        f: impl FnOnce() -> T,
    ) -> Option<T> {
        match catch_unwind(AssertUnwindSafe(f)) {
            Ok(v) => Some(v),
            Err(_) => {
                let (loc, msg) = take_panic();
                let site = short_site(&loc);
                let first = msg.lines().next().unwrap_or("").to_string();
                if is_env_failure(&msg) {
                    let mut out = std::io::stdout().lock();
                    let _ = writeln!(out, "M environment failure at {site}: {first}");
                    let _ = out.flush();
                    return None;
                }
                let mut a = base_attrs.clone();
                a.insert("panic".into(), "1".into());
                a.insert("site".into(), site.clone());
                self.viol(a, case(), &format!("panic at {site}: {first}"));
                None
            }
        }
    }

    pub fn viol(&mut self, attrs: BTreeMap<String, String>, case: Value, msg: &str) {
        self.nviol += 1;
        let sig = attrs.iter().map(|(k, v)| format!("{k}={v}")).collect::<Vec<_>>().join(",");
        let c = self.sigs.entry(sig).or_insert(0);
        *c += 1;
        if *c > self.max_per_sig {
            return;
        }
        let g = self.group.saturating_sub(1);
        let v = json!({"attrs": attrs, "case": case, "msg": msg, "group": g, "shard": self.shard0, "property": self.prop, "tier": self.tier});
        let mut out = std::io::stdout().lock();
        let _ = writeln!(out, "V {v}");
        let _ = out.flush();
    }

    pub fn count(&mut self, key: &str, n: u64) {
        *self.counters.entry(key.to_string()).or_insert(0) += n;
    }
    pub fn outcome(&mut self, key: &str) {
        *self.outcomes.entry(key.to_string()).or_insert(0) += 1;
    }
    /// register a hash of an abstract state / case for distinct counting
    pub fn distinct(&mut self, h: u64) -> bool {
        self.distinct.insert(h)
    }
    pub fn distinct_len(&self) -> u64 {
        self.distinct.len() as u64
    }
    pub fn sample(&mut self, v: impl FnOnce() -> Value) {
        if self.samples < 2 {
            self.samples += 1;
            let mut out = std::io::stdout().lock();
            let _ = writeln!(out, "S {}", v());
        }
    }
    pub fn finish(&mut self) {
        let sup: BTreeMap<String, u64> = self.sigs.iter().map(|(k, v)| (k.clone(), *v)).collect();
        let v = json!({"counters": self.counters, "outcomes": self.outcomes, "violations": self.nviol, "by_signature": sup, "distinct_states": self.distinct.len()});
        let mut out = std::io::stdout().lock();
        let _ = writeln!(out, "C {v}");
        let _ = out.flush();
    }
}

/// Number of OS threads of this process (from /proc/self/stat).
pub fn num_threads() -> usize {
    let Ok(s) = std::fs::read_to_string("/proc/self/stat") else { return 0 };
    // the command name may contain spaces; fields after the closing parenthesis
    let Some(p) = s.rfind(')') else { return 0 };
    s[p + 1..].split_whitespace().nth(17).and_then(|x| x.parse().ok()).unwrap_or(0)
}

/// Every manager owns a GC thread and a worker pool whose threads exit
/// asynchronously after the manager is dropped. Checks that create a fresh
/// manager per case call this first so that the process never holds more than a
/// few dozen threads (the sandbox has pid_max = 32768 for all processes).
pub fn throttle_threads() {
    let mut spins = 0u32;
    while num_threads() > 48 {
        std::thread::sleep(std::time::Duration::from_micros(if spins < 50 { 100 } else { 2000 }));
        spins += 1;
        if spins > 20000 {
            break;
        }
    }
}

pub fn fx(data: &[u64]) -> u64 {
    // FNV-1a over the words; deterministic across runs
    let mut h: u64 = 0xcbf29ce484222325;
    for w in data {
        for b in w.to_le_bytes() {
            h ^= b as u64;
            h = h.wrapping_mul(0x100000001b3);
        }
    }
    h
}
