//! Reference models. Nothing in here depends on /repo.
//!
//! A Boolean function (or a ZBDD family) over n <= 6 variables is a bit vector
//! `Tab` of 2^n bits: bit `a` is the value under the assignment in which
//! variable `v` has value `(a >> v) & 1` (for families: the member set with
//! variable mask `a`).

#![allow(dead_code)]

use std::collections::BTreeSet;

pub type Tab = u64;

#[inline]
pub fn full(n: u32) -> Tab {
    if n >= 6 { !0 } else { (1u64 << (1u32 << n)) - 1 }
}

#[inline]
pub fn var_tab(v: u32, n: u32) -> Tab {
    let mut t = 0u64;
    for a in 0..(1u32 << n) {
        if (a >> v) & 1 == 1 {
            t |= 1 << a;
        }
    }
    t
}

#[inline]
pub fn bit(t: Tab, a: u32) -> bool {
    (t >> a) & 1 == 1
}

/// Cofactor w.r.t. `v := val`, as a function over all n variables (independent
/// of v).
pub fn cofactor(t: Tab, v: u32, val: bool, n: u32) -> Tab {
    let mut r = 0u64;
    for a in 0..(1u32 << n) {
        let a2 = if val { a | (1 << v) } else { a & !(1 << v) };
        if bit(t, a2) {
            r |= 1 << a;
        }
    }
    r
}

pub fn depends_on(t: Tab, v: u32, n: u32) -> bool {
    cofactor(t, v, true, n) != cofactor(t, v, false, n)
}

#[derive(Clone, Copy, PartialEq, Eq, Debug, Hash, PartialOrd, Ord)]
pub enum BinOp {
    And,
    Or,
    Xor,
    Equiv,
    Nand,
    Nor,
    Imp,
    ImpStrict,
}

pub const BINOPS: [BinOp; 8] = [
    BinOp::And,
    BinOp::Or,
    BinOp::Xor,
    BinOp::Equiv,
    BinOp::Nand,
    BinOp::Nor,
    BinOp::Imp,
    BinOp::ImpStrict,
];

impl BinOp {
    pub fn name(self) -> &'static str {
        match self {
            BinOp::And => "and",
            BinOp::Or => "or",
            BinOp::Xor => "xor",
            BinOp::Equiv => "equiv",
            BinOp::Nand => "nand",
            BinOp::Nor => "nor",
            BinOp::Imp => "imp",
            BinOp::ImpStrict => "imp_strict",
        }
    }
    pub fn from_name(s: &str) -> Option<BinOp> {
        BINOPS.iter().copied().find(|o| o.name() == s)
    }
    /// Pointwise propositional connective on tables.
    pub fn apply(self, f: Tab, g: Tab, n: u32) -> Tab {
        let m = full(n);
        (match self {
            BinOp::And => f & g,
            BinOp::Or => f | g,
            BinOp::Xor => f ^ g,
            BinOp::Equiv => !(f ^ g),
            BinOp::Nand => !(f & g),
            BinOp::Nor => !(f | g),
            BinOp::Imp => !f | g,
            // imp_strict(f, g) = ¬f ∧ g  (f < g)
            BinOp::ImpStrict => !f & g,
        }) & m
    }
}

pub fn not(f: Tab, n: u32) -> Tab {
    !f & full(n)
}

pub fn ite(f: Tab, g: Tab, h: Tab, n: u32) -> Tab {
    ((f & g) | (!f & h)) & full(n)
}

pub fn exists(mut t: Tab, vars: u32, n: u32) -> Tab {
    for v in 0..n {
        if (vars >> v) & 1 == 1 {
            t = cofactor(t, v, true, n) | cofactor(t, v, false, n);
        }
    }
    t
}
pub fn forall(mut t: Tab, vars: u32, n: u32) -> Tab {
    for v in 0..n {
        if (vars >> v) & 1 == 1 {
            t = cofactor(t, v, true, n) & cofactor(t, v, false, n);
        }
    }
    t
}
pub fn unique(mut t: Tab, vars: u32, n: u32) -> Tab {
    for v in 0..n {
        if (vars >> v) & 1 == 1 {
            t = cofactor(t, v, true, n) ^ cofactor(t, v, false, n);
        }
    }
    t
}

/// A literal cube: `pos` and `neg` are disjoint variable masks.
pub fn cube_tab(pos: u32, neg: u32, n: u32) -> Tab {
    let mut t = full(n);
    for v in 0..n {
        if (pos >> v) & 1 == 1 {
            t &= var_tab(v, n);
        }
        if (neg >> v) & 1 == 1 {
            t &= not(var_tab(v, n), n);
        }
    }
    t
}

pub fn restrict(mut t: Tab, pos: u32, neg: u32, n: u32) -> Tab {
    for v in 0..n {
        if (pos >> v) & 1 == 1 {
            t = cofactor(t, v, true, n);
        } else if (neg >> v) & 1 == 1 {
            t = cofactor(t, v, false, n);
        }
    }
    t
}

/// Simultaneous substitution: `repl[v] = Some(r)` replaces variable v by r.
pub fn substitute(f: Tab, repl: &[Option<Tab>], n: u32) -> Tab {
    let mut r = 0u64;
    for a in 0..(1u32 << n) {
        let mut a2 = 0u32;
        for v in 0..n {
            let val = match repl.get(v as usize).copied().flatten() {
                Some(rt) => bit(rt, a),
                None => (a >> v) & 1 == 1,
            };
            if val {
                a2 |= 1 << v;
            }
        }
        if bit(f, a2) {
            r |= 1 << a;
        }
    }
    r
}

// ---- set-family view (ZBDD) -------------------------------------------------

pub fn fam_subset1(t: Tab, v: u32, n: u32) -> Tab {
    let mut r = 0u64;
    for s in 0..(1u32 << n) {
        if bit(t, s) && (s >> v) & 1 == 1 {
            r |= 1 << (s & !(1 << v));
        }
    }
    r
}
pub fn fam_subset0(t: Tab, v: u32, n: u32) -> Tab {
    let mut r = 0u64;
    for s in 0..(1u32 << n) {
        if bit(t, s) && (s >> v) & 1 == 0 {
            r |= 1 << s;
        }
    }
    r
}
pub fn fam_change(t: Tab, v: u32, n: u32) -> Tab {
    let mut r = 0u64;
    for s in 0..(1u32 << n) {
        if bit(t, s) {
            r |= 1 << (s ^ (1 << v));
        }
    }
    r
}
/// {S ∪ {v} | S ∈ hi} ∪ lo
pub fn fam_node(v: u32, hi: Tab, lo: Tab, n: u32) -> Tab {
    let mut r = lo;
    for s in 0..(1u32 << n) {
        if bit(hi, s) {
            r |= 1 << (s | (1 << v));
        }
    }
    r
}

// ---- permutations -----------------------------------------------------------

/// All permutations of 0..n in lexicographic order. An "order" is a vector
/// `ord` with `ord[level] = var`.
pub fn perms(n: u32) -> Vec<Vec<u32>> {
    fn rec(cur: &mut Vec<u32>, used: u32, n: u32, out: &mut Vec<Vec<u32>>) {
        if cur.len() as u32 == n {
            out.push(cur.clone());
            return;
        }
        for v in 0..n {
            if (used >> v) & 1 == 0 {
                cur.push(v);
                rec(cur, used | (1 << v), n, out);
                cur.pop();
            }
        }
    }
    let mut out = Vec::new();
    rec(&mut Vec::new(), 0, n, &mut out);
    out
}

pub fn order_str(ord: &[u32]) -> String {
    ord.iter().map(|v| v.to_string()).collect::<Vec<_>>().join("")
}
pub fn parse_order(s: &str) -> Vec<u32> {
    s.chars().map(|c| c.to_digit(10).unwrap()).collect()
}

// ---- minimal diagram sizes ---------------------------------------------------

#[derive(Clone, Copy, PartialEq, Eq, Debug)]
pub enum BKind {
    Bdd,
    Bcdd,
    Zbdd,
}

/// Number of nodes (inner + terminals) of the unique reduced diagram of `t`
/// under `order` (order[level] = var), computed from the table alone.
pub fn min_size(kind: BKind, t: Tab, n: u32, order: &[u32]) -> usize {
    let mut set: BTreeSet<Tab> = BTreeSet::new();
    fn rec(kind: BKind, t: Tab, n: u32, order: &[u32], level: usize, set: &mut BTreeSet<Tab>) {
        let m = full(n);
        match kind {
            BKind::Bdd => {
                if !set.insert(t) {
                    return;
                }
                if t == 0 || t == m {
                    return;
                }
                let mut l = level;
                while !depends_on(t, order[l], n) {
                    l += 1;
                }
                let v = order[l];
                rec(kind, cofactor(t, v, true, n), n, order, l + 1, set);
                rec(kind, cofactor(t, v, false, n), n, order, l + 1, set);
            }
            BKind::Bcdd => {
                let key = std::cmp::min(t, !t & m);
                if !set.insert(key) {
                    return;
                }
                if key == 0 {
                    return;
                }
                let mut l = level;
                while !depends_on(t, order[l], n) {
                    l += 1;
                }
                let v = order[l];
                rec(kind, cofactor(t, v, true, n), n, order, l + 1, set);
                rec(kind, cofactor(t, v, false, n), n, order, l + 1, set);
            }
            BKind::Zbdd => {
                if !set.insert(t) {
                    return;
                }
                if t == 0 || t == 1 {
                    return;
                }
                // first level whose variable occurs in some member set
                let mut l = level;
                loop {
                    let v = order[l];
                    if fam_subset1(t, v, n) != 0 {
                        break;
                    }
                    l += 1;
                }
                let v = order[l];
                rec(kind, fam_subset1(t, v, n), n, order, l + 1, set);
                rec(kind, fam_subset0(t, v, n), n, order, l + 1, set);
            }
        }
    }
    rec(kind, t, n, order, 0, &mut set);
    set.len()
}

/// A set of n-variable functions closed under variable permutation and
/// negation, used where all triples are too many for the quick tier.
pub fn closed_subset(n: u32, seedfns: &[Tab]) -> Vec<Tab> {
    let ps = perms(n);
    let mut set = BTreeSet::new();
    for &f in seedfns {
        for p in &ps {
            // permute variables: g(a) = f(a') with a'_{p[v]} = a_v
            let mut g = 0u64;
            for a in 0..(1u32 << n) {
                let mut a2 = 0;
                for v in 0..n {
                    if (a >> v) & 1 == 1 {
                        a2 |= 1 << p[v as usize];
                    }
                }
                if bit(f, a2) {
                    g |= 1 << a;
                }
            }
            set.insert(g);
            set.insert(not(g, n));
        }
    }
    set.into_iter().collect()
}

/// The 64-ish function subset for n = 3 used by quick tiers: constants,
/// literals, two-literal cubes/clauses, xors, majority, a mux, parity,
/// one-hot; closed under permutation and negation.
pub fn subset3() -> Vec<Tab> {
    let x0 = var_tab(0, 3);
    let x1 = var_tab(1, 3);
    let x2 = var_tab(2, 3);
    let seeds = [
        0,
        x0,
        x0 & x1,
        x0 & !x1 & 0xff,
        x0 ^ x1,
        x0 & x1 & x2,
        x0 ^ x1 ^ x2,
        (x0 & x1) | (x1 & x2) | (x0 & x2),
        (x0 & x1) | (!x0 & x2 & 0xff),
        (x0 & x1) | x2,
        (x0 ^ x1) & x2,
        0b0001_0110, // exactly one
    ];
    closed_subset(3, &seeds)
}

#[cfg(test)]
mod tests {
    use super::*;
    #[test]
    fn sizes() {
        // x0 as BDD: node + 2 terminals
        assert_eq!(min_size(BKind::Bdd, var_tab(0, 2), 2, &[0, 1]), 3);
        assert_eq!(min_size(BKind::Bcdd, var_tab(0, 2), 2, &[0, 1]), 2);
        // singleton {x0} as ZBDD
        assert_eq!(min_size(BKind::Zbdd, 0b0010, 2, &[0, 1]), 3);
    }
}
