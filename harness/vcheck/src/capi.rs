//! Hand-declared prototypes of the C API of /repo/crates/oxidd-ffi-c (compiled
//! unchanged as an rlib by the `capi-shim` package). The `#[repr(C)]` structs
//! below mirror the ones in `oxidd-ffi-c/src/{bdd,bcdd,zbdd}.rs` and
//! `util/{mod,interop,num,dddmp}.rs`; `oxidd_bdd_t`, `oxidd_bcdd_t` and
//! `oxidd_zbdd_t` (and the three manager types) have the same layout, so one
//! pair of types (`CFn`, `CMgr`) serves all three kinds.
//!
//! Ownership rules as documented there (checked by C19):
//! * a `CFn` is INVALID iff `p == NULL`; a `CMgr` is invalid iff `p == NULL`;
//! * returned `CFn`/`CMgr` values are new references owned by the caller
//!   (`*_unref` / `*_manager_unref`), arguments are never consumed (exception:
//!   `oxidd_zbdd_make_node` takes ownership of `hi` and `lo`);
//! * `*_ref`/`*_manager_ref` add one reference and return their argument;
//! * `substitution_add_pair` increments the reference count of the replacement,
//!   `substitution_free` decrements it again.

#![allow(dead_code)]
#![allow(improper_ctypes)]
#![allow(non_camel_case_types)]

use std::ffi::{c_char, c_void};
use std::mem::MaybeUninit;

use oxidd_core::function::BooleanOperator;

// make sure the rlib with the `#[no_mangle]` symbols is linked
extern crate capi_shim;

pub type VarNo = u32;
pub type LevelNo = u32;

/// `oxidd_{bdd,bcdd,zbdd}_manager_t`
#[repr(C)]
#[derive(Clone, Copy, PartialEq, Eq, Debug)]
pub struct CMgr {
    pub p: *const c_void,
}

/// `oxidd_{bdd,bcdd,zbdd}_t`
#[repr(C)]
#[derive(Clone, Copy, PartialEq, Eq, Debug)]
pub struct CFn {
    pub p: *const c_void,
    pub i: usize,
}

impl CFn {
    pub const INVALID: CFn = CFn { p: std::ptr::null(), i: 0 };
    #[inline]
    pub fn valid(&self) -> bool {
        !self.p.is_null()
    }
}

/// `oxidd_{bdd,bcdd,zbdd}_pair_t`
#[repr(C)]
#[derive(Clone, Copy)]
pub struct CPair {
    pub first: CFn,
    pub second: CFn,
}

/// `oxidd_var_no_range_t`
#[repr(C)]
#[derive(Clone, Copy, PartialEq, Eq, Debug)]
pub struct CVarRange {
    pub start: VarNo,
    pub end: VarNo,
}

/// `oxidd_var_no_bool_pair_t`
#[repr(C)]
#[derive(Clone, Copy)]
pub struct CVarBool {
    pub var: VarNo,
    pub val: bool,
}

/// `oxidd_duplicate_var_name_result_t`
#[repr(C)]
#[derive(Clone, Copy, PartialEq, Eq, Debug)]
pub struct CDupName {
    pub added_vars: CVarRange,
    pub present_var: VarNo,
}

/// `oxidd_assignment_t` (no `Drop`: freed through `oxidd_assignment_free`)
#[repr(C)]
#[derive(Clone, Copy)]
pub struct CAssignment {
    pub data: *mut i8,
    pub len: usize,
}

/// `oxidd_str_t` (borrowed)
#[repr(C)]
#[derive(Clone, Copy)]
pub struct CStrT {
    pub ptr: *const c_char,
    pub len: usize,
}

impl CStrT {
    pub fn of(s: &str) -> CStrT {
        CStrT { ptr: s.as_ptr().cast(), len: s.len() }
    }
    pub unsafe fn to_string(&self) -> String {
        if self.ptr.is_null() {
            return String::new();
        }
        String::from_utf8_lossy(unsafe { std::slice::from_raw_parts(self.ptr.cast::<u8>(), self.len) }).into_owned()
    }
}

/// `oxidd_string_t` (owned, freed through `oxidd_string_free` / `oxidd_error_free`)
#[repr(C)]
#[derive(Clone, Copy)]
pub struct CStringT {
    pub data: *const c_char,
    pub len: usize,
    pub cap: usize,
}

impl CStringT {
    pub unsafe fn to_string(&self) -> String {
        if self.data.is_null() {
            return String::new();
        }
        String::from_utf8_lossy(unsafe { std::slice::from_raw_parts(self.data.cast::<u8>(), self.len) }).into_owned()
    }
}

/// `oxidd_error_t`
#[repr(C)]
#[derive(Clone, Copy)]
pub struct CError {
    pub msg: CStringT,
}

/// `oxidd_slice_*` (borrowed)
#[repr(C)]
#[derive(Clone, Copy)]
pub struct CSlice<T> {
    pub ptr: *const T,
    pub len: usize,
}

impl<T: Copy> CSlice<T> {
    pub unsafe fn to_vec(&self) -> Vec<T> {
        if self.ptr.is_null() { vec![] } else { unsafe { std::slice::from_raw_parts(self.ptr, self.len) }.to_vec() }
    }
}

/// `oxidd_opt_*`
#[repr(C)]
#[derive(Clone, Copy)]
pub struct COpt<T: Copy> {
    pub is_some: bool,
    pub value: MaybeUninit<T>,
}

impl<T: Copy> COpt<T> {
    pub fn some(v: T) -> Self {
        COpt { is_some: true, value: MaybeUninit::new(v) }
    }
    pub fn none() -> Self {
        COpt { is_some: false, value: MaybeUninit::uninit() }
    }
}

/// `oxidd_size_hint_t`
#[repr(C)]
#[derive(Clone, Copy)]
pub struct CSizeHint {
    pub lower: usize,
    pub upper: usize,
}

/// `oxidd_iter_*`
#[repr(C)]
pub struct CIter<T: Copy> {
    pub next: extern "C" fn(*mut c_void) -> COpt<T>,
    pub size_hint: Option<extern "C" fn(*mut c_void) -> CSizeHint>,
    pub context: *mut c_void,
}

/// Context of an iterator over a Rust vector (for `CIter`)
pub struct VecIterCtx<T: Copy> {
    pub items: Vec<T>,
    pub pos: usize,
    /// number of `next` calls that returned an element
    pub yielded: usize,
}

extern "C" fn vec_iter_next<T: Copy>(ctx: *mut c_void) -> COpt<T> {
    let ctx = unsafe { &mut *(ctx as *mut VecIterCtx<T>) };
    if ctx.pos < ctx.items.len() {
        ctx.pos += 1;
        ctx.yielded += 1;
        COpt::some(ctx.items[ctx.pos - 1])
    } else {
        COpt::none()
    }
}
extern "C" fn vec_iter_hint<T: Copy>(ctx: *mut c_void) -> CSizeHint {
    let ctx = unsafe { &mut *(ctx as *mut VecIterCtx<T>) };
    let r = ctx.items.len() - ctx.pos;
    CSizeHint { lower: r, upper: r }
}

impl<T: Copy> VecIterCtx<T> {
    pub fn new(items: Vec<T>) -> Box<Self> {
        Box::new(VecIterCtx { items, pos: 0, yielded: 0 })
    }
    /// The C iterator over this context. The context must outlive the call.
    pub fn iter(self: &mut Box<Self>, with_hint: bool) -> CIter<T> {
        CIter {
            next: vec_iter_next::<T>,
            size_hint: if with_hint { Some(vec_iter_hint::<T>) } else { None },
            context: (&mut **self as *mut VecIterCtx<T>).cast(),
        }
    }
}

/// `oxidd_named_*`
#[repr(C)]
#[derive(Clone, Copy)]
pub struct CNamed<T: Copy> {
    pub func: T,
    pub name: CStrT,
}

/// `oxidd_natural_t` (no `Drop`: freed through `oxidd_natural_free`)
#[repr(C)]
#[derive(Clone, Copy)]
pub struct CNatural {
    pub ptr: *mut u64,
    pub len: u64,
    pub shl: u64,
}

/// `oxidd_dddmp_export_settings_t`; `version`: 0 = 2.0, 1 = 3.0
#[repr(C)]
#[derive(Clone, Copy)]
pub struct CExportSettings {
    pub version: u8,
    pub ascii: bool,
    pub strict: bool,
    pub diagram_name: CStrT,
}

/// opaque `oxidd_dddmp_file_t`
#[repr(C)]
pub struct CDddmpFile {
    _private: [u8; 0],
}

pub type WorkerCb = extern "C" fn(*mut c_void) -> *mut c_void;
pub type VarNameCb = extern "C" fn(*mut c_void, *const c_char, usize) -> *mut c_void;

// ---------------------------------------------------------------------------
// kind-independent entry points (util/*.rs)
// ---------------------------------------------------------------------------

unsafe extern "C" {
    pub fn oxidd_dddmp_open(path: *const c_char, path_len: usize, error: *mut CError) -> *mut CDddmpFile;
    pub fn oxidd_dddmp_close(file: *mut CDddmpFile);
    pub fn oxidd_dddmp_diagram_name(file: *const CDddmpFile) -> CStrT;
    pub fn oxidd_dddmp_num_nodes(file: *const CDddmpFile) -> usize;
    pub fn oxidd_dddmp_num_vars(file: *const CDddmpFile) -> VarNo;
    pub fn oxidd_dddmp_num_support_vars(file: *const CDddmpFile) -> VarNo;
    pub fn oxidd_dddmp_support_vars(file: *const CDddmpFile) -> CSlice<VarNo>;
    pub fn oxidd_dddmp_support_var_order(file: *const CDddmpFile) -> CSlice<VarNo>;
    pub fn oxidd_dddmp_support_var_to_level(file: *const CDddmpFile) -> CSlice<LevelNo>;
    pub fn oxidd_dddmp_has_var_names(file: *const CDddmpFile) -> bool;
    pub fn oxidd_dddmp_var_name(file: *const CDddmpFile, i: VarNo) -> CStrT;
    pub fn oxidd_dddmp_num_roots(file: *const CDddmpFile) -> usize;
    pub fn oxidd_dddmp_has_root_names(file: *const CDddmpFile) -> bool;
    pub fn oxidd_dddmp_root_name(file: *const CDddmpFile, i: usize) -> CStrT;

    pub fn oxidd_string_clone(string: *const CStringT) -> CStringT;
    pub fn oxidd_string_free(string: CStringT);
    pub fn oxidd_error_clone(error: *const CError) -> CError;
    pub fn oxidd_error_free(error: CError);
    pub fn oxidd_assignment_free(assignment: CAssignment);

    pub fn oxidd_natural_free(num: CNatural);
    pub fn oxidd_natural_eq(lhs: *const CNatural, rhs: *const CNatural) -> bool;
    pub fn oxidd_natural_cmp(lhs: *const CNatural, rhs: *const CNatural) -> i8;
    pub fn oxidd_natural_to_string(num: *const CNatural) -> CStringT;
    pub fn oxidd_natural_clone(num: *const CNatural) -> CNatural;
}

// ---------------------------------------------------------------------------
// per-kind entry points: one list, expanded into a table of function pointers
// per kind (`bdd::API`, `bcdd::API`, `zbdd::API`)
// ---------------------------------------------------------------------------

macro_rules! common_list {
    ($cb:ident $($pre:tt)*) => { $cb! { $($pre)* ;
        fn manager_new["manager_new"](inner_node_capacity: usize, apply_cache_capacity: usize, threads: u32) -> CMgr;
        fn manager_ref["manager_ref"](manager: CMgr) -> CMgr;
        fn manager_unref["manager_unref"](manager: CMgr) -> ();
        fn fref["ref"](f: CFn) -> CFn;
        fn unref["unref"](f: CFn) -> ();
        fn manager_run_in_worker_pool["manager_run_in_worker_pool"](manager: CMgr, callback: WorkerCb, data: *mut c_void) -> *mut c_void;
        fn containing_manager["containing_manager"](f: CFn) -> CMgr;
        fn manager_num_inner_nodes["manager_num_inner_nodes"](manager: CMgr) -> usize;
        fn manager_approx_num_inner_nodes["manager_approx_num_inner_nodes"](manager: CMgr) -> usize;
        fn manager_num_vars["manager_num_vars"](manager: CMgr) -> VarNo;
        fn manager_num_named_vars["manager_num_named_vars"](manager: CMgr) -> VarNo;
        fn manager_add_vars["manager_add_vars"](manager: CMgr, additional: VarNo) -> CVarRange;
        fn manager_add_named_vars["manager_add_named_vars"](manager: CMgr, names: *const *const c_char, count: VarNo) -> CDupName;
        fn manager_add_named_vars_iter["manager_add_named_vars_iter"](manager: CMgr, iter: CIter<CStrT>) -> CDupName;
        fn manager_var_name["manager_var_name"](manager: CMgr, var: VarNo, len: *mut usize) -> *const c_char;
        fn manager_with_var_name["manager_with_var_name"](manager: CMgr, var: VarNo, callback: VarNameCb, data: *mut c_void) -> *mut c_void;
        fn manager_set_var_name["manager_set_var_name"](manager: CMgr, var: VarNo, name: *const c_char, len: usize) -> VarNo;
        fn manager_name_to_var["manager_name_to_var"](manager: CMgr, name: *const c_char, len: usize) -> VarNo;
        fn manager_var_to_level["manager_var_to_level"](manager: CMgr, var: VarNo) -> LevelNo;
        fn manager_level_to_var["manager_level_to_var"](manager: CMgr, level: LevelNo) -> VarNo;
        fn manager_gc["manager_gc"](manager: CMgr) -> usize;
        fn manager_gc_count["manager_gc_count"](manager: CMgr) -> u64;
        fn manager_set_var_order["manager_set_var_order"](manager: CMgr, order: *const VarNo, len: usize) -> ();
        fn manager_import_dddmp["manager_import_dddmp"](manager: CMgr, file: *mut CDddmpFile, support_vars: *const VarNo, roots: *mut CFn, error: *mut CError) -> bool;
        fn manager_export_dddmp["manager_export_dddmp"](manager: CMgr, path: *const c_char, path_len: usize, functions: *const CFn, num_functions: usize, function_names: *const *const c_char, settings: *const CExportSettings, error: *mut CError) -> bool;
        fn manager_export_dddmp_iter["manager_export_dddmp_iter"](manager: CMgr, path: *const c_char, path_len: usize, functions: CIter<CFn>, settings: *const CExportSettings, error: *mut CError) -> bool;
        fn manager_export_dddmp_with_names_iter["manager_export_dddmp_with_names_iter"](manager: CMgr, path: *const c_char, path_len: usize, functions: CIter<CNamed<CFn>>, settings: *const CExportSettings, error: *mut CError) -> bool;
        fn manager_visualize["manager_visualize"](manager: CMgr, diagram_name: *const c_char, diagram_name_len: usize, functions: *const CFn, num_functions: usize, function_names: *const *const c_char, port: u16, error: *mut CError) -> bool;
        fn manager_visualize_iter["manager_visualize_iter"](manager: CMgr, diagram_name: *const c_char, diagram_name_len: usize, functions: CIter<CFn>, port: u16, error: *mut CError) -> bool;
        fn manager_visualize_with_names_iter["manager_visualize_with_names_iter"](manager: CMgr, diagram_name: *const c_char, diagram_name_len: usize, functions: CIter<CNamed<CFn>>, port: u16, error: *mut CError) -> bool;
        fn manager_dump_all_dot_path["manager_dump_all_dot_path"](manager: CMgr, path: *const c_char, path_len: usize, functions: *const CFn, function_names: *const *const c_char, num_function_names: usize, error: *mut CError) -> bool;
        fn manager_dump_all_dot_path_iter["manager_dump_all_dot_path_iter"](manager: CMgr, path: *const c_char, path_len: usize, functions: CIter<CNamed<CFn>>, error: *mut CError) -> bool;
        fn var["var"](manager: CMgr, var: VarNo) -> CFn;
        fn not_var["not_var"](manager: CMgr, var: VarNo) -> CFn;
        fn ffalse["false"](manager: CMgr) -> CFn;
        fn ftrue["true"](manager: CMgr) -> CFn;
        fn cofactors["cofactors"](f: CFn) -> CPair;
        fn cofactor_true["cofactor_true"](f: CFn) -> CFn;
        fn cofactor_false["cofactor_false"](f: CFn) -> CFn;
        fn node_level["node_level"](f: CFn) -> LevelNo;
        fn node_var["node_var"](f: CFn) -> VarNo;
        fn not["not"](f: CFn) -> CFn;
        fn and["and"](lhs: CFn, rhs: CFn) -> CFn;
        fn or["or"](lhs: CFn, rhs: CFn) -> CFn;
        fn nand["nand"](lhs: CFn, rhs: CFn) -> CFn;
        fn nor["nor"](lhs: CFn, rhs: CFn) -> CFn;
        fn xor["xor"](lhs: CFn, rhs: CFn) -> CFn;
        fn equiv["equiv"](lhs: CFn, rhs: CFn) -> CFn;
        fn imp["imp"](lhs: CFn, rhs: CFn) -> CFn;
        fn imp_strict["imp_strict"](lhs: CFn, rhs: CFn) -> CFn;
        fn ite["ite"](cond: CFn, then_case: CFn, else_case: CFn) -> CFn;
        fn node_count["node_count"](f: CFn) -> usize;
        fn satisfiable["satisfiable"](f: CFn) -> bool;
        fn valid["valid"](f: CFn) -> bool;
        fn sat_count["sat_count"](f: CFn, vars: LevelNo) -> CNatural;
        fn sat_count_double["sat_count_double"](f: CFn, vars: LevelNo) -> f64;
        fn pick_cube["pick_cube"](f: CFn) -> CAssignment;
        fn pick_cube_dd["pick_cube_dd"](f: CFn) -> CFn;
        fn pick_cube_dd_set["pick_cube_dd_set"](f: CFn, literal_set: CFn) -> CFn;
        fn eval["eval"](f: CFn, args: *const CVarBool, num_args: usize) -> bool;
        fn print_stats["print_stats"]() -> ();
    } };
}

/// opaque `oxidd_{bdd,bcdd}_substitution_t`
#[repr(C)]
pub struct CSubst {
    _private: [u8; 0],
}

/// BDD and BCDD only
macro_rules! quant_list {
    ($cb:ident $($pre:tt)*) => { $cb! { $($pre)* ;
        fn substitute["substitute"](f: CFn, substitution: *const CSubst) -> CFn;
        fn substitution_new["substitution_new"](capacity: usize) -> *mut CSubst;
        fn substitution_add_pair["substitution_add_pair"](substitution: *mut CSubst, var: VarNo, replacement: CFn) -> ();
        fn substitution_free["substitution_free"](substitution: *mut CSubst) -> ();
        fn restrict["restrict"](f: CFn, vars: CFn) -> CFn;
        fn forall["forall"](f: CFn, vars: CFn) -> CFn;
        fn exists["exists"](f: CFn, vars: CFn) -> CFn;
        fn unique["unique"](f: CFn, vars: CFn) -> CFn;
        fn apply_forall["apply_forall"](op: BooleanOperator, lhs: CFn, rhs: CFn, vars: CFn) -> CFn;
        fn apply_exists["apply_exists"](op: BooleanOperator, lhs: CFn, rhs: CFn, vars: CFn) -> CFn;
        fn apply_unique["apply_unique"](op: BooleanOperator, lhs: CFn, rhs: CFn, vars: CFn) -> CFn;
    } };
}

/// ZBDD only
macro_rules! set_list {
    ($cb:ident $($pre:tt)*) => { $cb! { $($pre)* ;
        fn singleton["singleton"](manager: CMgr, var: VarNo) -> CFn;
        fn make_node["make_node"](var: CFn, hi: CFn, lo: CFn) -> CFn;
        fn empty["empty"](manager: CMgr) -> CFn;
        fn base["base"](manager: CMgr) -> CFn;
        fn subset0["subset0"](set: CFn, var: VarNo) -> CFn;
        fn subset1["subset1"](set: CFn, var: VarNo) -> CFn;
        fn change["change"](set: CFn, var: VarNo) -> CFn;
        fn union["union"](lhs: CFn, rhs: CFn) -> CFn;
        fn intsec["intsec"](lhs: CFn, rhs: CFn) -> CFn;
        fn diff["diff"](lhs: CFn, rhs: CFn) -> CFn;
    } };
}

macro_rules! gen_struct {
    ($name:ident ; $(fn $f:ident[$suffix:literal]($($a:ident: $t:ty),*) -> $r:ty;)*) => {
        /// table of entry points of one decision diagram kind
        pub struct $name {
            pub prefix: &'static str,
            pub names: &'static [&'static str],
            $(pub $f: unsafe extern "C" fn($($t),*) -> $r,)*
        }
    };
}

macro_rules! gen_kind {
    ($m:ident $k:literal $name:ident ; $(fn $f:ident[$suffix:literal]($($a:ident: $t:ty),*) -> $r:ty;)*) => {
        pub mod $m {
            use super::*;
            unsafe extern "C" {
                $(
                    #[link_name = concat!("oxidd_", $k, "_", $suffix)]
                    pub fn $f($($a: $t),*) -> $r;
                )*
            }
            pub static API: $name = $name {
                prefix: concat!("oxidd_", $k, "_"),
                names: &[$($suffix),*],
                $($f: $f,)*
            };
        }
    };
}

common_list!(gen_struct Common);
quant_list!(gen_struct Quant);
set_list!(gen_struct SetOps);

common_list!(gen_kind bdd "bdd" Common);
common_list!(gen_kind bcdd "bcdd" Common);
common_list!(gen_kind zbdd "zbdd" Common);
quant_list!(gen_kind bdd_q "bdd" Quant);
quant_list!(gen_kind bcdd_q "bcdd" Quant);
set_list!(gen_kind zbdd_s "zbdd" SetOps);

/// Number of kind-independent entry points declared above
pub const NUM_UTIL_FNS: usize = 24;
