//! E-HIST: depth-bounded exhaustive exploration of operation histories on the
//! real managers, for five diagram kinds, with the reference model stepped in
//! lock-step. Used by C01 (canonicity), C03 (structure), C05 (reference counts /
//! gc) and C06 (apply-cache transparency).
//!
//! Model values are `i64` codes: Boolean kinds 0/1, TDD 0 = F, 1 = U, 2 = T,
//! MTBDD the integer itself. A table `VT` has VALS^n entries, the point index is
//! sum_v value(x_v) * VALS^v.

#![allow(dead_code)]

use std::collections::BTreeSet;
use std::hash::{Hash, Hasher};

use oxidd::bcdd::BCDDFunction;
use oxidd::bdd::BDDFunction;
use oxidd::mtbdd::MTBDDFunction;
use oxidd::mtbdd::terminal::{F64, I64};
use oxidd::tdd::TDDFunction;
use oxidd::zbdd::ZBDDFunction;
use oxidd::{BooleanFunction, BooleanVecSet, Edge, Function, HasLevel, InnerNode, Manager, ManagerRef, Node, PseudoBooleanFunction, TVLFunction};
use oxidd_core::DiagramRules;
use oxidd_core::util::AllocResult;
use oxidd_rules_tdd::TDDTerminal;
use serde_json::json;

use crate::dd::{self, AKind, AuditInfo, RawEdge};
use crate::model::{self, BKind, Tab};
use crate::proto::{Ctx, attrs};

pub type V = i64;
pub type VT = Vec<V>;
pub type MRef<K> = <<K as HKind>::F as Function>::ManagerRef;

pub fn npts(vals: usize, n: u32) -> usize {
    vals.pow(n)
}
pub fn digit(a: usize, v: u32, vals: usize) -> usize {
    (a / vals.pow(v)) % vals
}
pub fn vt_cofactor(t: &[V], v: u32, val: usize, vals: usize) -> VT {
    let p = vals.pow(v);
    (0..t.len()).map(|a| t[a - digit(a, v, vals) * p + val * p]).collect()
}
pub fn vt_depends(t: &[V], v: u32, vals: usize) -> bool {
    (1..vals).any(|x| vt_cofactor(t, v, x, vals) != vt_cofactor(t, v, 0, vals))
}
pub fn vt_const(t: &[V]) -> bool {
    t.iter().all(|x| *x == t[0])
}
pub fn tab_to_vt(t: Tab, n: u32) -> VT {
    (0..(1usize << n)).map(|a| ((t >> a) & 1) as i64).collect()
}
pub fn vt_to_tab(t: &[V]) -> Tab {
    t.iter().enumerate().fold(0u64, |acc, (a, &x)| acc | ((x as u64 & 1) << a))
}

/// minimal diagram size for "plain" reduction (node redundant iff all children equal)
pub fn min_size_plain(t: &[V], n: u32, vals: usize, order: &[u32]) -> usize {
    fn rec(t: VT, vals: usize, order: &[u32], level: usize, set: &mut BTreeSet<VT>) {
        if !set.insert(t.clone()) {
            return;
        }
        if vt_const(&t) {
            return;
        }
        let mut l = level;
        while !vt_depends(&t, order[l], vals) {
            l += 1;
        }
        for x in 0..vals {
            rec(vt_cofactor(&t, order[l], x, vals), vals, order, l + 1, set);
        }
    }
    let _ = n;
    let mut set = BTreeSet::new();
    rec(t.to_vec(), vals, order, 0, &mut set);
    // all constant tables with the same value are one terminal: the set holds full
    // tables, two constant tables are equal iff their value is equal
    set.len()
}

/// generic interpreter for diagrams without edge tags whose children are indexed by value
pub fn walk_table<M: Manager>(m: &M, e: &M::Edge, vals: usize, child_of: &dyn Fn(usize) -> usize, term: &dyn Fn(&M::Terminal) -> V) -> Result<VT, String>
where
    M::InnerNode: HasLevel,
{
    use std::borrow::Borrow;
    let n = m.num_levels();
    let mut out = Vec::with_capacity(npts(vals, n));
    for a in 0..npts(vals, n) {
        // walk
        let mut cur: oxidd_core::util::Borrowed<M::Edge> = e.borrowed();
        let mut above: Option<u32> = None;
        loop {
            match m.get_node(&*cur) {
                Node::Terminal(t) => {
                    out.push(term(t.borrow()));
                    break;
                }
                Node::Inner(node) => {
                    let l = node.level();
                    if l >= n {
                        return Err(format!("node level {l} out of range"));
                    }
                    if let Some(ab) = above {
                        if l <= ab {
                            return Err(format!("child level {l} not below parent level {ab}"));
                        }
                    }
                    above = Some(l);
                    let v = m.level_to_var(l);
                    let c = child_of(digit(a, v, vals));
                    cur = node.child(c);
                }
            }
        }
    }
    Ok(out)
}

pub fn build_vt<M: Manager>(m: &M, t: &[V], vals: usize, level: u32, child_vals: &[usize], term: &dyn Fn(&M, V) -> AllocResult<M::Edge>) -> AllocResult<M::Edge> {
    if vt_const(t) {
        return term(m, t[0]);
    }
    let n = m.num_levels();
    assert!(level < n);
    let v = m.level_to_var(level);
    if !vt_depends(t, v, vals) {
        return build_vt(m, t, vals, level + 1, child_vals, term);
    }
    let mut children: Vec<M::Edge> = Vec::with_capacity(child_vals.len());
    for &cv in child_vals {
        match build_vt(m, &vt_cofactor(t, v, cv, vals), vals, level + 1, child_vals, term) {
            Ok(e) => children.push(e),
            Err(err) => {
                for c in children {
                    m.drop_edge(c);
                }
                return Err(err);
            }
        }
    }
    <M::Rules as DiagramRules<_, _, _>>::reduce(m, level, children).then_insert(m, level)
}

macro_rules! export_impl {
    () => {
        fn export(mref: &MRef<Self>, live: &[&Self::F]) {
            let mut sink: Vec<u8> = Vec::new();
            mref.with_manager_shared(|m| {
                let _ = oxidd_dump::dddmp::ExportSettings::default().ascii().export(&mut sink, m, live.iter().copied());
            });
        }
    };
}

fn bool_val(op: usize, s: &[V]) -> V {
    let b = |x: V| x != 0;
    (match op {
        0 => b(s[0]) && b(s[1]),
        1 => b(s[0]) ^ b(s[1]),
        2 => !b(s[0]) || b(s[1]),
        3 => {
            if b(s[0]) {
                b(s[1])
            } else {
                b(s[2])
            }
        }
        4 => !b(s[0]),
        _ => unreachable!(),
    }) as V
}

const BOOL_OPS: &[OpDesc] = &[
    OpDesc { name: "A:=A&B", dst: 0, srcs: &[0, 1] },
    OpDesc { name: "B:=A^C", dst: 1, srcs: &[0, 2] },
    OpDesc { name: "C:=A->B", dst: 2, srcs: &[0, 1] },
    OpDesc { name: "A:=ite(C,A,B)", dst: 0, srcs: &[2, 0, 1] },
    OpDesc { name: "A:=!A", dst: 0, srcs: &[0] },
];

fn bool_apply<F: BooleanFunction>(op: usize, s: &[&F]) -> AllocResult<F> {
    match op {
        0 => s[0].and(s[1]),
        1 => s[0].xor(s[1]),
        2 => s[0].imp(s[1]),
        3 => s[0].ite(s[1], s[2]),
        4 => s[0].not(),
        _ => unreachable!(),
    }
}

// ---------------------------------------------------------------------------

pub struct OpDesc {
    pub name: &'static str,
    pub dst: usize,
    pub srcs: &'static [usize],
}

pub trait HKind: 'static {
    type F: Function + Clone + Eq + Ord + Hash + Send + Sync + 'static;
    const NAME: &'static str;
    const AK: AKind;
    const VALS: usize;
    const N0: u32;
    const ZBDD: bool = false;
    const OPS: &'static [OpDesc];
    fn new_manager(nodes: usize, cache: usize, threads: u32) -> MRef<Self>;
    fn new_manager_cfg(cfg: &Cfg) -> MRef<Self> {
        Self::new_manager(cfg.nodes, cfg.cache, cfg.threads)
    }
    fn table(f: &Self::F) -> Result<VT, String>;
    fn build(mref: &MRef<Self>, t: &[V]) -> AllocResult<Self::F>;
    fn audit(mref: &MRef<Self>, live: &[&Self::F], rc: bool) -> AuditInfo;
    fn init_tabs() -> [VT; 3];
    fn var(mref: &MRef<Self>, v: u32) -> AllocResult<Self::F>;
    fn var_tab(v: u32, n: u32) -> VT;
    fn apply(op: usize, s: &[&Self::F]) -> AllocResult<Self::F>;
    fn apply_val(op: usize, s: &[V]) -> V;
    /// for kinds whose operations are not pointwise on the table (ZBDD set view), override
    fn apply_model(op: usize, s: &[&VT], _n: u32) -> VT {
        (0..s[0].len()).map(|a| Self::apply_val(op, &s.iter().map(|t| t[a]).collect::<Vec<_>>())).collect()
    }
    fn extend(t: &[V]) -> VT {
        // a function that does not depend on the new (most significant) variable
        let mut r = Vec::with_capacity(t.len() * Self::VALS);
        for _ in 0..Self::VALS {
            r.extend_from_slice(t);
        }
        r
    }
    fn min_size(t: &[V], n: u32, order: &[u32]) -> usize;
    fn initial_nodes(_n: u32) -> usize {
        0
    }
    fn set_order(mref: &MRef<Self>, order: &[u32]);
    fn set_split_depth(_mref: &MRef<Self>, _depth: Option<u32>) {}
    /// `Manager::reorder(|m| { f op g (edge level, dropped); set_var_order(m, order) })`; kinds without an
    /// edge-level Boolean operator just reorder
    fn set_order_with_inner_op(mref: &MRef<Self>, order: &[u32], _f: &Self::F, _g: &Self::F) {
        Self::set_order(mref, order)
    }
    fn probe_table(i: usize, n: u32) -> VT;
    /// DDDMP (ASCII) export of the given handles into a sink; the file content is C15's business,
    /// here only the effect on the manager (reference counts) matters
    fn export(mref: &MRef<Self>, live: &[&Self::F]);
}


fn bool_probe(i: usize, n: u32) -> VT {
    // functions of the first three variables, many distinct nodes
    let t = ((i as u64).wrapping_mul(0x9e3779b97f4a7c15) >> 20) & 0xff;
    let base = tab_to_vt(t, 3);
    let mut r = base;
    for _ in 3..n {
        let c = r.clone();
        r.extend(c);
    }
    r
}

macro_rules! bool_kind {
    ($name:ident, $f:ty, $bk:expr, $ak:expr, $str:literal, $ddk:ty, $zbdd:expr, $ops:expr, $apply:path, $val:path, $init:expr) => {
        pub struct $name;
        impl HKind for $name {
            type F = $f;
            const NAME: &'static str = $str;
            const AK: AKind = $ak;
            const VALS: usize = 2;
            const N0: u32 = 3;
            const ZBDD: bool = $zbdd;
            const OPS: &'static [OpDesc] = $ops;
            fn new_manager(nodes: usize, cache: usize, threads: u32) -> MRef<Self> {
                <$ddk as dd::BoolKind>::new_manager(nodes, cache, threads)
            }
            fn table(f: &$f) -> Result<VT, String> {
                let n = f.with_manager_shared(|m, _| m.num_levels());
                <$ddk as dd::BoolKind>::table(f).map(|t| tab_to_vt(t, n))
            }
            fn build(mref: &MRef<Self>, t: &[V]) -> AllocResult<$f> {
                <$ddk as dd::BoolKind>::build(mref, vt_to_tab(t))
            }
            fn audit(mref: &MRef<Self>, live: &[&$f], rc: bool) -> AuditInfo {
                <$ddk as dd::BoolKind>::audit(mref, live, rc)
            }
            fn init_tabs() -> [VT; 3] {
                let t: [Tab; 3] = $init;
                [tab_to_vt(t[0], 3), tab_to_vt(t[1], 3), tab_to_vt(t[2], 3)]
            }
            fn var(mref: &MRef<Self>, v: u32) -> AllocResult<$f> {
                mref.with_manager_shared(|m| <$f as BooleanFunction>::var(m, v))
            }
            fn var_tab(v: u32, n: u32) -> VT {
                tab_to_vt(model::var_tab(v, n), n)
            }
            fn apply(op: usize, s: &[&$f]) -> AllocResult<$f> {
                $apply(op, s)
            }
            fn apply_val(op: usize, s: &[V]) -> V {
                $val(op, s)
            }
            fn extend(t: &[V]) -> VT {
                if $zbdd {
                    // same family; as a Boolean function it is false whenever the new variable is true
                    let mut r = t.to_vec();
                    r.extend(std::iter::repeat(0).take(t.len()));
                    r
                } else {
                    let mut r = t.to_vec();
                    r.extend_from_slice(t);
                    r
                }
            }
            fn min_size(t: &[V], n: u32, order: &[u32]) -> usize {
                model::min_size($bk, vt_to_tab(t), n, order)
            }
            fn initial_nodes(n: u32) -> usize {
                if $zbdd { n as usize } else { 0 }
            }
            fn set_order(mref: &MRef<Self>, order: &[u32]) {
                <$ddk as dd::BoolKind>::set_order(mref, order)
            }
            fn set_split_depth(mref: &MRef<Self>, depth: Option<u32>) {
                <$ddk as dd::BoolKind>::set_split_depth(mref, depth)
            }
            fn set_order_with_inner_op(mref: &MRef<Self>, order: &[u32], f: &$f, g: &$f) {
                mref.with_manager_exclusive(|m| {
                    m.reorder(|m| {
                        for _ in 0..2 {
                            if let Ok(e) = <$f as BooleanFunction>::xor_edge(m, f.as_edge(m), g.as_edge(m)) {
                                m.drop_edge(e);
                            }
                            if let Ok(e) = <$f as BooleanFunction>::and_edge(m, f.as_edge(m), g.as_edge(m)) {
                                m.drop_edge(e);
                            }
                        }
                        oxidd_reorder::set_var_order(m, order)
                    })
                })
            }
            export_impl!();
            fn probe_table(i: usize, n: u32) -> VT {
                if $zbdd {
                    let mut r = tab_to_vt(((i as u64).wrapping_mul(0x9e3779b97f4a7c15) >> 20) & 0xff, 3);
                    r.resize(1usize << n, 0);
                    r
                } else {
                    bool_probe(i, n)
                }
            }
        }
    };
}

const BOOL_INIT: [Tab; 3] = [0xaa, 0xcc, 0xf0]; // x0, x1, x2
bool_kind!(HBdd, BDDFunction, BKind::Bdd, AKind::Bdd, "bdd", dd::Bdd, false, BOOL_OPS, bool_apply, bool_val, BOOL_INIT);
bool_kind!(HBcdd, BCDDFunction, BKind::Bcdd, AKind::Bcdd, "bcdd", dd::Bcdd, false, BOOL_OPS, bool_apply, bool_val, BOOL_INIT);
bool_kind!(HZbdd, ZBDDFunction, BKind::Zbdd, AKind::Zbdd, "zbdd", dd::Zbdd, true, BOOL_OPS, bool_apply, bool_val, BOOL_INIT);

/// ZBDDs through their set-family operations (pointwise on the characteristic table of the family):
/// A = {{x2}}, B = {{x0}}, C = {∅}; A ∪ C is a node of the manager's own tautology chain, and
/// "B := A ∪ C; add_vars (B := x_new); B := A ∪ C" repeats an operation across a variable addition
const SET_OPS: &[OpDesc] = &[
    OpDesc { name: "B:=A∪C", dst: 1, srcs: &[0, 2] },
    OpDesc { name: "A:=B∖C", dst: 0, srcs: &[1, 2] },
    OpDesc { name: "C:=A∩B", dst: 2, srcs: &[0, 1] },
    OpDesc { name: "A:=A∪B", dst: 0, srcs: &[0, 1] },
    OpDesc { name: "C:=C∪B", dst: 2, srcs: &[2, 1] },
];
const SET_INIT: [Tab; 3] = [1 << 4, 1 << 1, 1 << 0];
fn set_apply(op: usize, s: &[&ZBDDFunction]) -> AllocResult<ZBDDFunction> {
    match op {
        0 | 3 | 4 => s[0].union(s[1]),
        1 => s[0].diff(s[1]),
        2 => s[0].intsec(s[1]),
        _ => unreachable!(),
    }
}
fn set_val(op: usize, s: &[V]) -> V {
    let b = |x: V| x != 0;
    (match op {
        0 | 3 | 4 => b(s[0]) || b(s[1]),
        1 => b(s[0]) && !b(s[1]),
        2 => b(s[0]) && b(s[1]),
        _ => unreachable!(),
    }) as V
}
bool_kind!(HZbddS, ZBDDFunction, BKind::Zbdd, AKind::Zbdd, "zbdds", dd::Zbdd, true, SET_OPS, set_apply, set_val, SET_INIT);

// ---- MTBDD -------------------------------------------------------------------------

fn i64_of(t: &I64) -> V {
    match t {
        I64::Num(x) => *x,
        I64::NaN => i64::MIN + 1,
        I64::MinusInf => i64::MIN + 2,
        I64::PlusInf => i64::MAX - 1,
    }
}
fn i64_term(v: V) -> I64 {
    I64::Num(v)
}
fn i64_enc(i: i64) -> V {
    i
}
fn i64_val(op: usize, s: &[V]) -> V {
    // the values stay tiny (|v| < 2^40 within the depth bound), so plain integer arithmetic is exact
    match op {
        0 => s[0] + s[1],
        1 => s[0] * s[1],
        2 => s[0].min(s[1]),
        3 => s[0].max(s[1]),
        4 => s[0] - s[1],
        _ => unreachable!(),
    }
}

/// F64 values are kept in the tables as the bit pattern of the *normalised* number (-0.0 = 0.0,
/// one NaN): two handles denote the same function iff these tables are equal.
fn f64_norm(x: f64) -> f64 {
    if x.is_nan() {
        f64::NAN
    } else if x == 0.0 {
        0.0
    } else {
        x
    }
}
fn f64_of(t: &F64) -> V {
    f64_norm(f64::from(*t)).to_bits() as i64
}
fn f64_term(v: V) -> F64 {
    F64::from(f64::from_bits(v as u64))
}
fn f64_enc(i: i64) -> V {
    (i as f64).to_bits() as i64
}
fn f64_val(op: usize, s: &[V]) -> V {
    let (a, b) = (f64::from_bits(s[0] as u64), f64::from_bits(s[1] as u64));
    let r = match op {
        0 => a + b,
        1 => a * b,
        2 => if b < a { b } else { a },
        3 => if b > a { b } else { a },
        4 => a - b,
        _ => unreachable!(),
    };
    f64_norm(r).to_bits() as i64
}

macro_rules! mt_hkind {
    ($name:ident, $str:literal, $t:ty, $n0:expr, $init:expr, $of:path, $term:path, $enc:path, $val:path, $ops:expr, $codes:expr) => {
        pub struct $name;
        impl HKind for $name {
            type F = MTBDDFunction<$t>;
            const NAME: &'static str = $str;
            const AK: AKind = AKind::Mtbdd;
            const VALS: usize = 2;
            const N0: u32 = $n0;
            const OPS: &'static [OpDesc] = $ops;
            fn new_manager(nodes: usize, cache: usize, threads: u32) -> MRef<Self> {
                oxidd::mtbdd::new_manager(nodes, 1 << 12, cache, threads)
            }
            fn new_manager_cfg(cfg: &Cfg) -> MRef<Self> {
                oxidd::mtbdd::new_manager(cfg.nodes, cfg.terms, cfg.cache, cfg.threads)
            }
            fn table(f: &Self::F) -> Result<VT, String> {
                f.with_manager_shared(|m, e| walk_table(m, e, 2, &|val| 1 - val, &|t| $of(t)))
            }
            fn build(mref: &MRef<Self>, t: &[V]) -> AllocResult<Self::F> {
                mref.with_manager_shared(|m| Ok(<Self::F>::from_edge(m, build_vt(m, t, 2, 0, &[1, 0], &|m, v| m.get_terminal($term(v)))?)))
            }
            fn audit(mref: &MRef<Self>, live: &[&Self::F], rc: bool) -> AuditInfo {
                mref.with_manager_shared(|m| {
                    let roots: Vec<RawEdge> = live.iter().map(|f| dd::raw_edge(m, f.as_edge(m))).collect();
                    dd::audit_raw(m, AKind::Mtbdd, &roots, None, None, rc)
                })
            }
            fn init_tabs() -> [VT; 3] {
                let t: [&[i64]; 3] = $init;
                [t[0].iter().map(|&i| $enc(i)).collect(), t[1].iter().map(|&i| $enc(i)).collect(), t[2].iter().map(|&i| $enc(i)).collect()]
            }
            fn var(mref: &MRef<Self>, v: u32) -> AllocResult<Self::F> {
                mref.with_manager_shared(|m| <Self::F as PseudoBooleanFunction>::var(m, v))
            }
            fn var_tab(v: u32, n: u32) -> VT {
                (0..(1usize << n)).map(|a| $enc(((a >> v) & 1) as i64)).collect()
            }
            fn apply(op: usize, s: &[&Self::F]) -> AllocResult<Self::F> {
                const CODES: &[usize] = $codes;
                match CODES[op] {
                    0 => s[0].add(s[1]),
                    1 => s[0].mul(s[1]),
                    2 => PseudoBooleanFunction::min(s[0], s[1]),
                    3 => PseudoBooleanFunction::max(s[0], s[1]),
                    4 => s[0].sub(s[1]),
                    _ => unreachable!(),
                }
            }
            fn apply_val(op: usize, s: &[V]) -> V {
                const CODES: &[usize] = $codes;
                $val(CODES[op], s)
            }
            fn min_size(t: &[V], n: u32, order: &[u32]) -> usize {
                min_size_plain(t, n, 2, order)
            }
            fn set_order(mref: &MRef<Self>, order: &[u32]) {
                mref.with_manager_exclusive(|m| oxidd_reorder::set_var_order(m, order))
            }
            export_impl!();
            fn probe_table(i: usize, n: u32) -> VT {
                (0..(1usize << n)).map(|a| $enc(((i >> (3 * (a % 4))) & 7) as i64 + 100 + (a / 4) as i64)).collect()
            }
        }
    };
}

const MT_OPS: &[OpDesc] = &[
    OpDesc { name: "A:=A+B", dst: 0, srcs: &[0, 1] },
    OpDesc { name: "B:=A*C", dst: 1, srcs: &[0, 2] },
    OpDesc { name: "C:=min(A,B)", dst: 2, srcs: &[0, 1] },
    OpDesc { name: "A:=max(A,B)", dst: 0, srcs: &[0, 1] },
    OpDesc { name: "B:=A-C", dst: 1, srcs: &[0, 2] },
];
const MT_CODES: &[usize] = &[0, 1, 2, 3, 4];
/// operations on two fixed one-variable operands whose results are bare terminals, plus a doubling
/// step that keeps asking for new terminal values
const MTK_OPS: &[OpDesc] = &[
    OpDesc { name: "C:=A+B", dst: 2, srcs: &[0, 1] },
    OpDesc { name: "C:=A*B", dst: 2, srcs: &[0, 1] },
    OpDesc { name: "C:=min(A,B)", dst: 2, srcs: &[0, 1] },
    OpDesc { name: "C:=C+C", dst: 2, srcs: &[2, 2] },
    OpDesc { name: "C:=C-A", dst: 2, srcs: &[2, 0] },
];
const MTK_CODES: &[usize] = &[0, 1, 2, 0, 4];

// x0, 2*x1 (built as table), constant 1
mt_hkind!(HMtbdd, "mtbdd", I64, 2, [&[0, 1, 0, 1], &[0, 0, 2, 2], &[1, 1, 1, 1]], i64_of, i64_term, i64_enc, i64_val, MT_OPS, MT_CODES);
// one variable, mostly constants: results are often bare terminals (terminal table bookkeeping)
mt_hkind!(HMtbddC, "mtbddc", I64, 1, [&[3, 3], &[4, 4], &[0, 1]], i64_of, i64_term, i64_enc, i64_val, MT_OPS, MT_CODES);
// A = x0 + 1, B = 2 - x0 (A+B, A*B, min(A,B) are constants), C = 0
mt_hkind!(HMtbddK, "mtbddk", I64, 1, [&[1, 2], &[2, 1], &[0, 0]], i64_of, i64_term, i64_enc, i64_val, MTK_OPS, MTK_CODES);
// F64 terminals: x0, (-1, -1, 2, 2), constant -1: products reach -0.0
mt_hkind!(HMtbddF, "mtbddf", F64, 2, [&[0, 1, 0, 1], &[-1, -1, 2, 2], &[-1, -1, -1, -1]], f64_of, f64_term, f64_enc, f64_val, MT_OPS, MT_CODES);

// ---- TDD ------------------------------------------------------------------------

pub struct HTdd;

fn tdd_val(t: &TDDTerminal) -> V {
    match t {
        TDDTerminal::False => 0,
        TDDTerminal::Unknown => 1,
        TDDTerminal::True => 2,
    }
}
fn tdd_term(v: V) -> TDDTerminal {
    match v {
        0 => TDDTerminal::False,
        1 => TDDTerminal::Unknown,
        _ => TDDTerminal::True,
    }
}
// literal tables from the property statement (F=0, U=1, T=2), rows = lhs
const K_AND: [[V; 3]; 3] = [[0, 0, 0], [0, 1, 1], [0, 1, 2]];
const K_OR: [[V; 3]; 3] = [[0, 1, 2], [1, 1, 2], [2, 2, 2]];
const L_IMP: [[V; 3]; 3] = [[2, 2, 2], [1, 2, 2], [0, 1, 2]];
const L_EQUIV: [[V; 3]; 3] = [[2, 1, 0], [1, 2, 1], [0, 1, 2]];
fn k_not(a: V) -> V {
    2 - a
}

impl HKind for HTdd {
    type F = TDDFunction;
    const NAME: &'static str = "tdd";
    const AK: AKind = AKind::Tdd;
    const VALS: usize = 3;
    const N0: u32 = 2;
    const OPS: &'static [OpDesc] = &[
        OpDesc { name: "A:=A&B", dst: 0, srcs: &[0, 1] },
        OpDesc { name: "B:=A^C", dst: 1, srcs: &[0, 2] },
        OpDesc { name: "C:=A->B", dst: 2, srcs: &[0, 1] },
        OpDesc { name: "A:=ite(C,A,B)", dst: 0, srcs: &[2, 0, 1] },
        OpDesc { name: "A:=!A", dst: 0, srcs: &[0] },
    ];
    fn new_manager(nodes: usize, cache: usize, threads: u32) -> MRef<Self> {
        oxidd::tdd::new_manager(nodes, cache, threads)
    }
    fn table(f: &TDDFunction) -> Result<VT, String> {
        f.with_manager_shared(|m, e| walk_table(m, e, 3, &|val| 2 - val, &|t| tdd_val(t)))
    }
    fn build(mref: &MRef<Self>, t: &[V]) -> AllocResult<TDDFunction> {
        mref.with_manager_shared(|m| Ok(TDDFunction::from_edge(m, build_vt(m, t, 3, 0, &[2, 1, 0], &|m, v| m.get_terminal(tdd_term(v)))?)))
    }
    fn audit(mref: &MRef<Self>, live: &[&TDDFunction], rc: bool) -> AuditInfo {
        mref.with_manager_shared(|m| {
            let roots: Vec<RawEdge> = live.iter().map(|f| dd::raw_edge(m, f.as_edge(m))).collect();
            dd::audit_raw(m, AKind::Tdd, &roots, None, None, rc)
        })
    }
    fn init_tabs() -> [VT; 3] {
        let x0 = Self::var_tab(0, 2);
        let x1 = Self::var_tab(1, 2);
        let c: VT = (0..9).map(|a| K_OR[x0[a] as usize][k_not(x1[a]) as usize]).collect();
        [x0, x1, c]
    }
    fn var(mref: &MRef<Self>, v: u32) -> AllocResult<TDDFunction> {
        mref.with_manager_shared(|m| <TDDFunction as TVLFunction>::var(m, v))
    }
    fn var_tab(v: u32, n: u32) -> VT {
        (0..npts(3, n)).map(|a| digit(a, v, 3) as i64).collect()
    }
    fn apply(op: usize, s: &[&TDDFunction]) -> AllocResult<TDDFunction> {
        match op {
            0 => s[0].and(s[1]),
            1 => s[0].xor(s[1]),
            2 => s[0].imp(s[1]),
            3 => s[0].ite(s[1], s[2]),
            4 => s[0].not(),
            _ => unreachable!(),
        }
    }
    fn apply_val(op: usize, s: &[V]) -> V {
        let (a, b) = (s[0] as usize, s.get(1).copied().unwrap_or(0) as usize);
        match op {
            0 => K_AND[a][b],
            1 => k_not(L_EQUIV[a][b]),
            2 => L_IMP[a][b],
            3 => {
                let c = s[2] as usize;
                // ite(a,b,c): b if b = c or a true, c if a false, for unknown a: or(a,c) if a = b, and(a,b) if a = c, unknown otherwise
                if b == c || a == 2 {
                    b as V
                } else if a == 0 {
                    c as V
                } else if a == b {
                    K_OR[a][c]
                } else if a == c {
                    K_AND[a][b]
                } else {
                    1
                }
            }
            4 => k_not(s[0]),
            _ => unreachable!(),
        }
    }
    fn min_size(t: &[V], n: u32, order: &[u32]) -> usize {
        min_size_plain(t, n, 3, order)
    }
    fn set_order(mref: &MRef<Self>, order: &[u32]) {
        mref.with_manager_exclusive(|m| oxidd_reorder::set_var_order(m, order))
    }
    export_impl!();
    fn probe_table(i: usize, n: u32) -> VT {
        let mut x = (i as u64).wrapping_mul(0x9e3779b97f4a7c15) >> 13;
        let mut base = vec![];
        for _ in 0..9 {
            base.push((x % 3) as i64);
            x /= 3;
        }
        let mut r = base;
        for _ in 2..n {
            let c = r.clone();
            r.extend(c.clone());
            r.extend(c);
        }
        r
    }
}

// ---------------------------------------------------------------------------
// the register machine
// ---------------------------------------------------------------------------

#[derive(Clone, Copy, PartialEq, Eq, Debug)]
pub enum Prop {
    C01,
    C03,
    C05,
    C06,
}

#[derive(Clone, Copy, Debug)]
pub struct Cfg {
    pub nodes: usize,
    pub cache: usize,
    pub threads: u32,
    /// capacity of the terminal table (MTBDD kinds)
    pub terms: usize,
    /// every action is issued from inside `with_manager_shared` of another manager, so the calling
    /// thread's node-store state is bound to that other manager
    pub nested: bool,
    /// the reordering actions compute A op B (edge-level, result released at once) inside the closure of
    /// `Manager::reorder` before the levels are moved (legal: the closure gets the manager)
    pub inner_op: bool,
    /// split depth of the multi-threaded apply recursion (None: the manager's default); with one worker
    /// the parallel code path runs deterministically on a single thread
    pub split: Option<u32>,
}

impl Cfg {
    pub fn parse(s: &str) -> Cfg {
        // "n64c16t1", optionally followed by "k<terminals>" and/or "x" (nested)
        let s = s.trim_start_matches('n');
        let (n, rest) = s.split_once('c').unwrap();
        let (c, rest) = rest.split_once('t').unwrap();
        let inner_op = rest.ends_with('r');
        let rest = rest.trim_end_matches('r');
        let nested = rest.ends_with('x');
        let rest = rest.trim_end_matches('x');
        let (rest, k) = match rest.split_once('k') {
            Some((t, k)) => (t, k.parse().unwrap()),
            None => (rest, 1 << 12),
        };
        let (t, split) = match rest.split_once('d') {
            Some((t, d)) => (t, Some(d.parse().unwrap())),
            None => (rest, None),
        };
        Cfg { nodes: n.parse().unwrap(), cache: c.parse().unwrap(), threads: t.parse().unwrap(), terms: k, nested, inner_op, split }
    }
    pub fn show(&self) -> String {
        format!("nodes={}, cache={}{}{}", self.nodes, self.cache, if self.terms != 1 << 12 { format!(", terminals={}", self.terms) } else { String::new() }, if self.nested { ", nested in another manager's session" } else if self.inner_op { ", operation inside the reorder closure" } else { "" })
    }
}

pub const NGEN: usize = 9; // generic actions after the kind's ops

/// Is the node store so small that a history of the given depth can fill it? Then reordering (and
/// for ZBDDs add_vars, which rebuilds the tautology chain) is left out of the alphabet: these calls
/// cannot report OutOfMemory through their signatures and abort the process instead, which is C14's
/// recorded finding and not the subject of the history checks. ZBDD diagrams over up to 5 variables
/// plus the garbage of 5 operations exceed 32 nodes.
pub fn tight<K: HKind>(cfg: &Cfg, depth: usize) -> bool {
    cfg.nodes < 32 || (K::ZBDD && cfg.nodes < 48 && depth >= 5)
}

pub fn num_actions<K: HKind>() -> usize {
    K::OPS.len() + NGEN
}

pub fn action_name<K: HKind>(a: usize) -> String {
    let k = K::OPS.len();
    if a < k {
        return K::OPS[a].name.to_string();
    }
    match a - k {
        0 => "C:=clone(A)",
        1 => "drop(A)",
        2 => "drop(B)",
        3 => "gc",
        4 => "add_vars(1);B:=x_new",
        5 => "set_var_order(reverse)",
        6 => "set_var_order(rotate)",
        7 => "drop(C) on another thread",
        8 => "dddmp_export(live registers)",
        _ => "?",
    }
    .to_string()
}

/// model state
#[derive(Clone)]
pub struct MState {
    pub n: u32,
    pub order: Vec<u32>,
    pub regs: [Option<VT>; 3],
}

impl MState {
    pub fn init<K: HKind>() -> MState {
        let t = K::init_tabs();
        MState { n: K::N0, order: (0..K::N0).collect(), regs: [Some(t[0].clone()), Some(t[1].clone()), Some(t[2].clone())] }
    }
    /// is the action enabled? (operands present, variable budget, something to drop)
    pub fn enabled<K: HKind>(&self, a: usize, tight: bool) -> bool {
        let k = K::OPS.len();
        if a < k {
            return K::OPS[a].srcs.iter().all(|&r| self.regs[r].is_some());
        }
        match a - k {
            0 => self.regs[0].is_some(),
            1 => self.regs[0].is_some(),
            2 => self.regs[1].is_some(),
            3 => true,
            // On a tight node store, reordering (and the rebuild of the ZBDD tautology
            // chain after add_vars) may run out of nodes, which the library answers
            // with a process abort by design of its API (`()` return type); that is
            // C14's subject, not this check's.
            4 => self.n < K::N0 + 2 && !(tight && K::ZBDD),
            5 | 6 => !tight,
            7 => self.regs[2].is_some(),
            8 => self.regs.iter().any(|r| r.is_some()),
            _ => false,
        }
    }
    /// step assuming the library call succeeds
    pub fn step<K: HKind>(&mut self, a: usize) {
        let k = K::OPS.len();
        if a < k {
            let op = &K::OPS[a];
            let srcs: Vec<&VT> = op.srcs.iter().map(|&r| self.regs[r].as_ref().unwrap()).collect();
            let r = K::apply_model(a, &srcs, self.n);
            self.regs[op.dst] = Some(r);
            return;
        }
        match a - k {
            0 => self.regs[2] = self.regs[0].clone(),
            1 => self.regs[0] = None,
            2 => self.regs[1] = None,
            3 => {}
            4 => {
                for r in self.regs.iter_mut() {
                    if let Some(t) = r {
                        *t = K::extend(t);
                    }
                }
                self.order.push(self.n);
                self.n += 1;
                self.regs[1] = Some(K::var_tab(self.n - 1, self.n));
            }
            5 => self.order.reverse(),
            6 => self.order.rotate_left(1),
            7 => self.regs[2] = None,
            _ => {}
        }
    }
    pub fn hash(&self) -> u64 {
        let mut h = std::collections::hash_map::DefaultHasher::new();
        self.n.hash(&mut h);
        self.order.hash(&mut h);
        self.regs.hash(&mut h);
        h.finish()
    }
}

/// implementation state
pub struct IState<K: HKind> {
    pub mref: MRef<K>,
    pub regs: [Option<K::F>; 3],
    pub inner_op: bool,
}

pub fn new_istate<K: HKind>(cfg: &Cfg) -> IState<K> {
    crate::proto::throttle_threads();
    let mref = K::new_manager_cfg(cfg);
    if cfg.split.is_some() {
        K::set_split_depth(&mref, cfg.split);
    }
    mref.with_manager_exclusive(|m| {
        m.add_vars(K::N0);
    });
    let t = K::init_tabs();
    let regs = [
        Some(K::build(&mref, &t[0]).expect("harness: init")),
        Some(K::build(&mref, &t[1]).expect("harness: init")),
        Some(K::build(&mref, &t[2]).expect("harness: init")),
    ];
    IState { mref, regs, inner_op: cfg.inner_op }
}

pub enum StepOut {
    Ok,
    /// the library reported OutOfMemory: registers and model stay as they were
    Oom,
}

/// Execute action `a` on the implementation. `gc_ret` receives the return value of gc.
pub fn istep<K: HKind>(st: &mut IState<K>, ms: &MState, a: usize, gc_ret: &mut Option<(usize, usize, usize, usize, usize)>) -> StepOut {
    let k = K::OPS.len();
    if a < k {
        let op = &K::OPS[a];
        let res = {
            let srcs: Vec<&K::F> = op.srcs.iter().map(|&r| st.regs[r].as_ref().unwrap()).collect();
            K::apply(a, &srcs)
        };
        return match res {
            Ok(f) => {
                st.regs[op.dst] = Some(f);
                StepOut::Ok
            }
            Err(_) => StepOut::Oom,
        };
    }
    match a - k {
        0 => st.regs[2] = st.regs[0].clone(),
        1 => st.regs[0] = None,
        2 => st.regs[1] = None,
        3 => {
            let r = st.mref.with_manager_shared(|m| {
                let before = m.num_inner_nodes();
                let tb = m.num_terminals();
                let ret = m.gc();
                (before, ret, m.num_inner_nodes(), tb, m.num_terminals())
            });
            *gc_ret = Some(r);
        }
        4 => {
            st.mref.with_manager_exclusive(|m| {
                m.add_vars(1);
            });
            match K::var(&st.mref, ms.n) {
                Ok(f) => st.regs[1] = Some(f),
                Err(_) => return StepOut::Oom,
            }
        }
        5 | 6 => {
            let mut o = ms.order.clone();
            if a - k == 5 {
                o.reverse();
            } else {
                o.rotate_left(1);
            }
            // two live registers as operands of the operation inside the reorder closure
            let live: Vec<&K::F> = st.regs.iter().flatten().collect();
            if st.inner_op && live.len() >= 2 {
                K::set_order_with_inner_op(&st.mref, &o, live[0], live[1]);
            } else {
                K::set_order(&st.mref, &o);
            }
        }
        7 => {
            let f = st.regs[2].take();
            std::thread::spawn(move || drop(f)).join().unwrap();
        }
        8 => {
            let live: Vec<&K::F> = st.regs.iter().flatten().collect();
            K::export(&st.mref, &live);
        }
        _ => {}
    }
    StepOut::Ok
}

pub fn cur_order<K: HKind>(mref: &MRef<K>) -> Vec<u32> {
    mref.with_manager_shared(|m| (0..m.num_levels()).map(|l| m.level_to_var(l)).collect())
}

fn hash_of<T: Hash>(x: &T) -> u64 {
    let mut h = std::collections::hash_map::DefaultHasher::new();
    x.hash(&mut h);
    h.finish()
}

/// capacity probe: number of inner nodes that can exist before OutOfMemory
pub fn probe<K: HKind>(mref: &MRef<K>, n: u32) -> usize {
    probe_audited::<K>(mref, n).0
}

/// as `probe`, plus the auditor's verdict (structure and reference counts) at the moment the store
/// is full and every probe diagram is alive, and whether all of them still denote their tables
pub fn probe_audited<K: HKind>(mref: &MRef<K>, n: u32) -> (usize, Vec<String>) {
    // every second probe of a process fills the store from a short-lived helper thread: slots freed by the
    // calling thread's collections must be available to every thread once the calling thread's session is over
    static PROBES: std::sync::atomic::AtomicUsize = std::sync::atomic::AtomicUsize::new(0);
    fn fill<K: HKind>(mr: &MRef<K>, n: u32, from: usize) -> (Vec<(VT, K::F)>, usize) {
        let mut held: Vec<(VT, K::F)> = vec![];
        let mut i = from;
        let r = loop {
            let t = K::probe_table(i, n);
            match K::build(mr, &t) {
                Ok(f) => held.push((t, f)),
                Err(_) => break mr.with_manager_shared(|m| m.num_inner_nodes()),
            }
            i += 1;
            if i > 4096 {
                break usize::MAX;
            }
        };
        (held, r)
    }
    let helper = PROBES.fetch_add(1, std::sync::atomic::Ordering::Relaxed) % 2 == 1;
    let t0 = K::probe_table(0, n);
    let (held, r) = match K::build(mref, &t0) {
        // (the helper thread gets at the manager through the first probe diagram's handle)
        Ok(f0) if helper => {
            let (mut rest, r) = std::thread::scope(|s| {
                let f0 = &f0;
                s.spawn(move || {
                    let mr = f0.manager_ref();
                    fill::<K>(&mr, n, 1)
                })
                .join()
                .unwrap()
            });
            rest.insert(0, (t0, f0));
            (rest, r)
        }
        Ok(f0) => {
            let (mut rest, r) = fill::<K>(mref, n, 1);
            rest.insert(0, (t0, f0));
            (rest, r)
        }
        Err(_) => (vec![], mref.with_manager_shared(|m| m.num_inner_nodes())),
    };
    let refs: Vec<&K::F> = held.iter().map(|x| &x.1).collect();
    let mut errs = K::audit(mref, &refs, true).errors;
    for (t, f) in &held {
        match K::table(f) {
            Ok(x) if &x == t => {}
            other => errs.push(format!("a probe diagram built for {} reads back as {:?}", short(t), other.map(|v| short(&v)))),
        }
    }
    errs.truncate(3);
    drop(refs);
    drop(held);
    mref.with_manager_shared(|m| m.gc());
    (r, errs)
}

pub struct Engine {
    pub prop: Prop,
    pub cfg: Cfg,
    pub depth: usize,
}

/// All per-step oracles of one property; returns (class, message) pairs.
pub fn check_step<K: HKind>(prop: Prop, st: &IState<K>, ms: &MState, a: usize, gc_ret: Option<(usize, usize, usize, usize, usize)>) -> Vec<(String, String)> {
    let mut errs: Vec<(String, String)> = vec![];
    let live: Vec<(usize, &K::F, &VT)> = (0..3).filter_map(|i| st.regs[i].as_ref().map(|f| (i, f, ms.regs[i].as_ref().unwrap()))).collect();
    let lf: Vec<&K::F> = live.iter().map(|x| x.1).collect();
    let order = cur_order::<K>(&st.mref);
    match prop {
        Prop::C01 => {
            // tables first (a wrong function makes the == check meaningless)
            let mut ok_tables = true;
            for (i, f, t) in &live {
                match K::table(f) {
                    Ok(x) if &x == *t => {}
                    other => {
                        ok_tables = false;
                        errs.push(("function_wrong".into(), format!("register {} denotes {:?}, model {:?}", "ABC".as_bytes()[*i] as char, other.map(|v| short(&v)), short(t))));
                    }
                }
            }
            if ok_tables {
                for x in 0..live.len() {
                    for y in (x + 1)..live.len() {
                        let same = live[x].2 == live[y].2;
                        let eq = live[x].1 == live[y].1;
                        if same != eq {
                            errs.push(("eq_iff_same_function".into(), format!("registers {} and {}: same function = {same}, handles equal = {eq}", x, y)));
                        }
                        if eq {
                            if hash_of(live[x].1) != hash_of(live[y].1) {
                                errs.push(("hash_inconsistent".into(), "equal handles hash differently".into()));
                            }
                        }
                        let c = live[x].1.cmp(live[y].1);
                        if (c == std::cmp::Ordering::Equal) != eq || live[y].1.cmp(live[x].1) != c.reverse() {
                            errs.push(("ord_inconsistent".into(), "Ord is not consistent with ==".into()));
                        }
                    }
                    // against a fresh route-A construction of the same function
                    match K::build(&st.mref, live[x].2) {
                        Ok(g) => {
                            if &g != live[x].1 {
                                errs.push(("not_canonical".into(), format!("register {} != freshly built diagram of the same function {:?}", x, short(live[x].2))));
                            }
                        }
                        Err(_) => {}
                    }
                }
            }
        }
        Prop::C03 => {
            let info = K::audit(&st.mref, &lf, false);
            for e in info.errors.iter().take(2) {
                errs.push(("audit".into(), e.clone()));
            }
            if order != ms.order && (a >= K::OPS.len() + 5 && a <= K::OPS.len() + 6) {
                errs.push(("order_map".into(), format!("level->var map {order:?}, requested {:?}", ms.order)));
            }
            for (i, f, t) in &live {
                let want = K::min_size(t, ms.n, &order);
                let got = f.node_count();
                if got != want {
                    errs.push(("node_count".into(), format!("node_count of register {} ({:?}) = {got}, the unique reduced diagram under order {order:?} has {want} nodes", i, short(t))));
                }
            }
        }
        Prop::C05 => {
            let info = K::audit(&st.mref, &lf, true);
            for e in info.errors.iter().take(2) {
                errs.push(("refcount_or_structure".into(), e.clone()));
            }
            if let Some((before, ret, after, tb, ta)) = gc_ret {
                if after != info.reachable {
                    errs.push(("gc_not_exact".into(), format!("after gc {after} inner nodes are stored but {} are reachable from live handles/manager data", info.reachable)));
                }
                if before < after || tb < ta || (before - after) + (tb - ta) != ret {
                    errs.push(("gc_return_value".into(), format!("gc returned {ret} but the inner node count went from {before} to {after} and the terminal count from {tb} to {ta}")));
                }
            }
            for (i, f, t) in &live {
                match K::table(f) {
                    Ok(x) if &x == *t => {}
                    other => errs.push(("function_changed".into(), format!("register {i} denotes {:?}, model {:?}", other.map(|v| short(&v)), short(t)))),
                }
            }
        }
        Prop::C06 => {}
    }
    errs
}

pub fn short(t: &[V]) -> String {
    if t.len() <= 32 {
        format!("{t:?}")
    } else {
        format!("{:?}..(len {})", &t[..16], t.len())
    }
}

/// Enumerate all histories of length `depth` that start with `prefix`; execute
/// each on a fresh manager; check every step that was not already checked as
/// part of the previous history (longest common prefix).
pub fn explore<K: HKind>(ctx: &mut Ctx, prop: Prop, cfg: &Cfg, prefix: &[usize], depth: usize) {
    let na = num_actions::<K>();
    let mut seq: Vec<usize> = prefix.to_vec();
    let mut prev: Vec<usize> = vec![];
    // model pre-check of the prefix
    {
        let mut ms = MState::init::<K>();
        for &a in prefix {
            if !ms.enabled::<K>(a, tight::<K>(cfg, depth)) {
                return;
            }
            ms.step::<K>(a);
        }
    }
    let baseline_probe: std::cell::RefCell<std::collections::BTreeMap<Vec<u32>, usize>> = Default::default();
    fn rec<K: HKind>(
        ctx: &mut Ctx,
        prop: Prop,
        cfg: &Cfg,
        seq: &mut Vec<usize>,
        prev: &mut Vec<usize>,
        depth: usize,
        na: usize,
        base: &std::cell::RefCell<std::collections::BTreeMap<Vec<u32>, usize>>,
    ) {
        if seq.len() == depth {
            let r = std::panic::catch_unwind(std::panic::AssertUnwindSafe(|| run_one::<K>(ctx, prop, cfg, seq, prev, base)));
            if r.is_err() {
                let (loc, msg) = crate::proto::take_panic();
                let site = crate::proto::short_site(&loc);
                if crate::proto::is_env_failure(&msg) {
                    println!("M environment failure at {site}: {}", msg.lines().next().unwrap_or(""));
                } else {
                    let names: Vec<String> = seq.iter().map(|&a| action_name::<K>(a)).collect();
                    ctx.viol(
                        attrs(&[("kind", K::NAME), ("panic", "1"), ("site", &site)]),
                        json!({"kind": K::NAME, "nodes": cfg.nodes, "cache": cfg.cache, "threads": cfg.threads, "actions": seq, "action_names": names}),
                        &format!("{:?} {} history {:?} ({}): panic at {site}: {}", prop, K::NAME, names, cfg.show(), msg.lines().next().unwrap_or("")),
                    );
                }
            }
            *prev = seq.clone();
            return;
        }
        // enabledness from the model
        let mut ms = MState::init::<K>();
        for &a in seq.iter() {
            ms.step::<K>(a);
        }
        for a in 0..na {
            if ms.enabled::<K>(a, tight::<K>(cfg, depth)) {
                seq.push(a);
                rec::<K>(ctx, prop, cfg, seq, prev, depth, na, base);
                seq.pop();
            }
        }
    }
    rec::<K>(ctx, prop, cfg, &mut seq, &mut prev, depth, na, &baseline_probe);
}

fn viol<K: HKind>(ctx: &mut Ctx, prop: Prop, cfg: &Cfg, seq: &[usize], step: usize, class: &str, msg: &str) {
    let names: Vec<String> = seq.iter().map(|&a| action_name::<K>(a)).collect();
    let a = seq[step.min(seq.len() - 1)];
    let case = json!({"kind": K::NAME, "nodes": cfg.nodes, "cache": cfg.cache, "threads": cfg.threads, "terminals": cfg.terms, "nested": cfg.nested, "actions": seq, "action_names": names,
        "failed_after_step": step, "initial_registers": K::init_tabs().iter().map(|t| short(t)).collect::<Vec<_>>()});
    ctx.viol(
        attrs(&[("kind", K::NAME), ("class", class), ("last_action", &action_name::<K>(a))]),
        case,
        &format!("{:?} {} history {:?} ({}): after step {step}: {msg}", prop, K::NAME, names, cfg.show()),
    );
}

/// run `f` from inside a shared session of the other manager (if any)
fn nest<K: HKind, R>(outer: &Option<MRef<K>>, f: impl FnOnce() -> R) -> R {
    match outer {
        Some(o) => o.with_manager_shared(|_| f()),
        None => f(),
    }
}

fn run_one<K: HKind>(ctx: &mut Ctx, prop: Prop, cfg: &Cfg, seq: &[usize], prev: &[usize], base: &std::cell::RefCell<std::collections::BTreeMap<Vec<u32>, usize>>) {
    let lcp = seq.iter().zip(prev.iter()).take_while(|(a, b)| a == b).count();
    let depth = seq.len();
    ctx.count("evaluations", 1);
    ctx.count("executions", 1);
    if prop == Prop::C06 {
        return run_one_c06::<K>(ctx, cfg, seq, lcp);
    }
    let mut st = new_istate::<K>(cfg);
    let outer: Option<MRef<K>> = if cfg.nested { Some(K::new_manager(64, 16, 1)) } else { None };
    let mut ms = MState::init::<K>();
    let mut nontrivial = false;
    for (i, &a) in seq.iter().enumerate() {
        if !ms.enabled::<K>(a, tight::<K>(cfg, depth)) {
            // only possible after an operation failed with OutOfMemory (the register it
            // should have filled is empty); the rest of the history is not applicable
            ctx.outcome("history_cut_after_out_of_memory");
            break;
        }
        let mut gc_ret = None;
        let out = nest::<K, _>(&outer, || istep::<K>(&mut st, &ms, a, &mut gc_ret));
        match out {
            StepOut::Ok => ms.step::<K>(a),
            StepOut::Oom => {
                ctx.outcome("step_out_of_memory");
                if a == K::OPS.len() + 4 {
                    // the variable was added, only the handle creation failed
                    let keep = ms.regs[1].clone();
                    ms.step::<K>(a);
                    ms.regs[1] = keep.map(|t| K::extend(&t));
                    // the old B stays in the register
                }
            }
        }
        if a >= K::OPS.len() {
            nontrivial = true;
        }
        if i >= lcp {
            ctx.count("transitions", 1);
            ctx.distinct(ms.hash());
            for (class, msg) in check_step::<K>(prop, &st, &ms, a, gc_ret) {
                viol::<K>(ctx, prop, cfg, seq, i, &class, &msg);
            }
        }
    }
    if nontrivial {
        ctx.count("nontrivial", 1);
    }
    if prop == Prop::C05 {
        // teardown: everything dropped => initial node count, full capacity available again
        let n = ms.n;
        let left = nest::<K, _>(&outer, || {
            st.regs = [None, None, None];
            st.mref.with_manager_shared(|m| {
                m.gc();
                m.num_inner_nodes()
            })
        });
        if left != K::initial_nodes(n) {
            viol::<K>(ctx, prop, cfg, seq, seq.len() - 1, "nodes_left_after_teardown", &format!("{left} inner nodes remain after dropping all handles and gc, initial count is {}", K::initial_nodes(n)));
        }
        if K::AK == AKind::Mtbdd {
            let nt = st.mref.with_manager_shared(|m| m.num_terminals());
            if nt != 0 {
                viol::<K>(ctx, prop, cfg, seq, seq.len() - 1, "terminals_left_after_teardown", &format!("{nt} terminals remain after dropping all handles and gc"));
            }
        }
        // Worker threads of the manager keep private free-slot lists (by design of the allocator), so
        // the number of nodes the calling thread can create is only meaningful with a single worker.
        // (with a split depth the operations run on the worker thread, which then owns free slots as well)
        if cfg.nodes <= 64 && cfg.threads == 1 && cfg.split.is_none() {
            let b = {
                let mut bm = base.borrow_mut();
                // same number of variables and same order (which diagram hits the limit of a small
                // terminal table first depends on the order)
                let order = cur_order::<K>(&st.mref);
                *bm.entry(order.clone()).or_insert_with(|| {
                    let fresh = K::new_manager_cfg(cfg);
                    fresh.with_manager_exclusive(|m| {
                        m.add_vars(n);
                    });
                    K::set_order(&fresh, &order);
                    probe::<K>(&fresh, n)
                })
            };
            let (p, perrs) = nest::<K, _>(&outer, || probe_audited::<K>(&st.mref, n));
            for e in perrs {
                viol::<K>(ctx, prop, cfg, seq, seq.len() - 1, "store_corrupt_when_refilled", &format!("after the history, all handles dropped and gc, the store was filled again: {e}"));
            }
            ctx.outcome(&format!("probe={p}"));
            if p != b {
                viol::<K>(ctx, prop, cfg, seq, seq.len() - 1, "capacity_lost", &format!("after the history only {p} inner nodes can be created before OutOfMemory, a fresh manager allows {b}"));
            }
        }
    }
}

/// C06: the same history on managers that differ only in the apply-cache
/// capacity, plus one that was warmed up by unrelated operations; every
/// operation is re-issued once and must return the same handle.
fn run_one_c06<K: HKind>(ctx: &mut Ctx, cfg: &Cfg, seq: &[usize], lcp: usize) {
    let depth = seq.len();
    let caps: &[usize] = if ctx.thorough() { &[1, 2, 16, 4096] } else { &[1, 16, 4096] };
    let mut sts: Vec<IState<K>> = caps.iter().map(|&c| new_istate::<K>(&Cfg { cache: c, ..*cfg })).collect();
    // warmed-up manager: unrelated operations first (results dropped)
    {
        let w = new_istate::<K>(&Cfg { cache: 16, ..*cfg });
        let t = K::init_tabs();
        let regs: Vec<K::F> = t.iter().map(|x| K::build(&w.mref, x).unwrap()).collect();
        let mut tmp: Vec<K::F> = vec![];
        for round in 0..10 {
            for op in 0..K::OPS.len() {
                let d = &K::OPS[op];
                let srcs: Vec<&K::F> = d.srcs.iter().map(|&r| if round % 2 == 0 || tmp.is_empty() { &regs[r] } else { &tmp[(r + round) % tmp.len()] }).collect();
                if let Ok(f) = K::apply(op, &srcs) {
                    tmp.push(f);
                }
            }
            if tmp.len() > 8 {
                tmp.drain(..4);
            }
        }
        drop(tmp);
        drop(regs);
        // w.regs still hold the initial functions
        sts.push(w);
    }
    let mut ms = MState::init::<K>();
    let mut nontrivial = false;
    for (i, &a) in seq.iter().enumerate() {
        let checked = i >= lcp;
        if checked {
            ctx.count("transitions", 1);
        }
        if !ms.enabled::<K>(a, tight::<K>(cfg, depth)) {
            break;
        }
        let mut ooms = 0;
        for (mi, st) in sts.iter_mut().enumerate() {
            // for operations: remember the operands, run, re-issue, compare handles
            let k = K::OPS.len();
            if a < k {
                let op = &K::OPS[a];
                let operands: Vec<K::F> = op.srcs.iter().map(|&r| st.regs[r].clone().unwrap()).collect();
                let mut g = None;
                let out = istep::<K>(st, &ms, a, &mut g);
                if let StepOut::Oom = out {
                    ooms += 1;
                    continue;
                }
                if checked {
                    let refs: Vec<&K::F> = operands.iter().collect();
                    if let Ok(again) = K::apply(a, &refs) {
                        if Some(&again) != st.regs[op.dst].as_ref() {
                            let cap = if mi < caps.len() { caps[mi].to_string() } else { "16 (warmed up)".into() };
                            viol::<K>(ctx, Prop::C06, cfg, seq, i, "repeat_differs", &format!("re-issuing {} with the same operands returned a different handle (cache capacity {cap})", op.name));
                        }
                    }
                }
            } else {
                let mut g = None;
                if let StepOut::Oom = istep::<K>(st, &ms, a, &mut g) {
                    // add_vars succeeded but the handle of the new variable could not be created
                    ooms += 1;
                }
            }
        }
        if ooms == 0 {
            ms.step::<K>(a);
        } else if ooms != sts.len() {
            ctx.outcome("oom_in_some_managers_only");
            return; // capacity effects are C14's business; stop this history
        } else {
            return;
        }
        if a < K::OPS.len() && i > 0 {
            nontrivial = true;
        }
        if checked {
            ctx.distinct(ms.hash());
            // every manager agrees with the model (hence with each other) in table and node count
            let order = cur_order::<K>(&sts[0].mref);
            for (mi, st) in sts.iter().enumerate() {
                let cap = if mi < caps.len() { caps[mi].to_string() } else { "16 (warmed up)".into() };
                for r in 0..3 {
                    if let (Some(f), Some(t)) = (&st.regs[r], &ms.regs[r]) {
                        match K::table(f) {
                            Ok(x) if &x == t => {}
                            other => viol::<K>(ctx, Prop::C06, cfg, seq, i, "result_depends_on_cache", &format!("cache capacity {cap}: register {r} denotes {:?}, model {:?}", other.map(|v| short(&v)), short(t))),
                        }
                        let want = K::min_size(t, ms.n, &order);
                        if f.node_count() != want {
                            viol::<K>(ctx, Prop::C06, cfg, seq, i, "node_count_depends_on_cache", &format!("cache capacity {cap}: node_count of register {r} = {}, expected {want}", f.node_count()));
                        }
                    }
                }
            }
        }
    }
    if nontrivial {
        ctx.count("nontrivial", 1);
    }
}

/// shard = "<kind>:<cfg>:<a0>[,<a1>]"
pub fn run_shard(ctx: &mut Ctx, prop: Prop, depth: usize) {
    let shard = ctx.shard.clone();
    let p: Vec<&str> = shard.split(':').collect();
    let cfg = Cfg::parse(p[1]);
    let prefix: Vec<usize> = p[2].split(',').map(|x| x.parse().unwrap()).collect();
    let label = format!("histories depth {depth} prefix {prefix:?}");
    match p[0] {
        "bdd" => ctx.group(&label, |ctx| explore::<HBdd>(ctx, prop, &cfg, &prefix, depth)),
        "bcdd" => ctx.group(&label, |ctx| explore::<HBcdd>(ctx, prop, &cfg, &prefix, depth)),
        "zbdd" => ctx.group(&label, |ctx| explore::<HZbdd>(ctx, prop, &cfg, &prefix, depth)),
        "zbdds" => ctx.group(&label, |ctx| explore::<HZbddS>(ctx, prop, &cfg, &prefix, depth)),
        "mtbdd" => ctx.group(&label, |ctx| explore::<HMtbdd>(ctx, prop, &cfg, &prefix, depth)),
        "mtbddc" => ctx.group(&label, |ctx| explore::<HMtbddC>(ctx, prop, &cfg, &prefix, depth)),
        "mtbddk" => ctx.group(&label, |ctx| explore::<HMtbddK>(ctx, prop, &cfg, &prefix, depth)),
        "mtbddf" => ctx.group(&label, |ctx| explore::<HMtbddF>(ctx, prop, &cfg, &prefix, depth)),
        "tdd" => ctx.group(&label, |ctx| explore::<HTdd>(ctx, prop, &cfg, &prefix, depth)),
        _ => panic!("bad kind"),
    }
    ctx.sample(|| json!({"shard": shard, "depth": depth, "legend": "actions: kind ops, then clone/drop/drop/gc/add_vars/reverse/rotate/drop-on-thread"}));
}

pub fn shards_for(kinds: &[&str], cfgs: &[&str], prefix_len: usize) -> Vec<String> {
    let mut v = vec![];
    for k in kinds {
        for c in cfgs {
            let na = 5 + NGEN;
            if prefix_len == 1 {
                for a in 0..na {
                    v.push(format!("{k}:{c}:{a}"));
                }
            } else {
                for a in 0..na {
                    for b in 0..na {
                        v.push(format!("{k}:{c}:{a},{b}"));
                    }
                }
            }
        }
    }
    v
}
