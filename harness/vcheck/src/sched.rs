//! E-SCHED: cooperative scheduler over the `cfg(oxidd_verif)` hooks and a
//! stateless, preemption-bounded DFS explorer of thread schedules of the REAL
//! code. Controlled threads are OS threads of which exactly one runs at a time;
//! at every hook point the running thread hands the decision to the scheduler.
//! Blocking acquisitions are announced with a readiness predicate, so waiting
//! is visible and "no enabled thread" is a detected deadlock.

#![allow(dead_code)]

use std::cell::Cell;
use std::sync::{Condvar, Mutex, OnceLock};

use oxidd_core::verif;

#[derive(Clone, Copy, PartialEq, Eq, Debug)]
enum St {
    /// registered, parked, may be scheduled when its predicate (if any) holds
    Ready,
    Running,
    Finished,
}

struct Th {
    st: St,
    /// readiness predicate of a thread parked in `acquire` (points into that thread's stack)
    pred: Option<*const (dyn Fn() -> bool + Sync)>,
    /// wait-for-thread predicate (join): ready when that thread is finished
    wait_for: Option<usize>,
    /// adopted service thread of a manager: never finishes, parks in a modelled wait
    daemon: bool,
}
unsafe impl Send for Th {}

#[derive(Clone, Debug)]
pub struct PointRec {
    pub thread: usize,
    pub class: u32,
    pub enabled: Vec<usize>,
    pub chosen: usize,
    pub running_enabled: bool,
}

#[derive(Default)]
struct State {
    active: bool,
    threads: Vec<Th>,
    current: Option<usize>,
    prefix: Vec<usize>,
    trace: Vec<PointRec>,
    deadlock: Option<String>,
    all_done: bool,
    max_points: usize,
    overrun: bool,
    panics: Vec<String>,
    /// daemons of this execution have been told to leave the scheduler
    released: bool,
}

/// service threads (background collectors) that announced themselves while adoption was on and
/// are parked in their first modelled wait, waiting to be attached to the next execution
struct PendingDaemon {
    slot: std::sync::Arc<DaemonSlot>,
    pred: *const (dyn Fn() -> bool + Sync),
}
unsafe impl Send for PendingDaemon {}

struct DaemonSlot {
    /// thread id within the execution it was attached to (usize::MAX: not attached yet)
    id: std::sync::atomic::AtomicUsize,
    /// execution counter at attachment
    epoch: std::sync::atomic::AtomicU64,
    /// told to behave like an ordinary thread from now on
    released: std::sync::atomic::AtomicBool,
}

struct Daemons {
    adopt: bool,
    adopted: usize,
    pending: Vec<PendingDaemon>,
    /// slots of the daemons attached to the current execution
    attached: Vec<std::sync::Arc<DaemonSlot>>,
}

static DAEMONS: Mutex<Daemons> = Mutex::new(Daemons { adopt: false, adopted: 0, pending: vec![], attached: vec![] });
static EPOCH: std::sync::atomic::AtomicU64 = std::sync::atomic::AtomicU64::new(0);

thread_local! {
    static DSLOT: std::cell::RefCell<Option<std::sync::Arc<DaemonSlot>>> = const { std::cell::RefCell::new(None) };
}

/// Service threads of managers created from now on (until `adopt_daemons(false)`) are adopted.
pub fn adopt_daemons(on: bool) {
    let mut d = DAEMONS.lock().unwrap();
    d.adopt = on;
    if on {
        d.adopted = 0;
    }
}

/// Wait until `n` service threads have announced themselves since adoption was switched on, then
/// switch adoption off.
pub fn finish_adoption(n: usize) {
    let t0 = std::time::Instant::now();
    loop {
        {
            let mut d = DAEMONS.lock().unwrap();
            if d.adopted >= n {
                d.adopt = false;
                return;
            }
        }
        if t0.elapsed() > std::time::Duration::from_secs(20) {
            println!("M a service thread did not announce itself within 20 s");
            std::process::exit(2);
        }
        std::thread::sleep(std::time::Duration::from_micros(20));
    }
}

fn hook_daemon_start(_res: usize) -> bool {
    let mut d = DAEMONS.lock().unwrap();
    if !d.adopt {
        return false;
    }
    d.adopted += 1;
    let slot = std::sync::Arc::new(DaemonSlot {
        id: std::sync::atomic::AtomicUsize::new(usize::MAX),
        epoch: std::sync::atomic::AtomicU64::new(0),
        released: std::sync::atomic::AtomicBool::new(false),
    });
    DSLOT.with(|s| *s.borrow_mut() = Some(slot));
    true
}

fn hook_daemon_wait(_res: usize, ready: &(dyn Fn() -> bool + Sync)) -> bool {
    use std::sync::atomic::Ordering::SeqCst;
    let Some(slot) = DSLOT.with(|s| s.borrow().clone()) else { return false };
    if slot.released.load(SeqCst) {
        CUR.with(|c| c.set(None));
        return false;
    }
    // SAFETY of the lifetime extension: the pointer is only used while this thread is parked in here
    let p: *const (dyn Fn() -> bool + Sync) = unsafe { std::mem::transmute(ready) };
    let s = sched();
    let id = slot.id.load(SeqCst);
    if id == usize::MAX {
        // first wait: not attached to an execution yet
        DAEMONS.lock().unwrap().pending.push(PendingDaemon { slot: slot.clone(), pred: p });
        let mut g = s.st.lock().unwrap();
        s.cv.notify_all();
        loop {
            if slot.released.load(SeqCst) {
                return false;
            }
            let id = slot.id.load(SeqCst);
            if id != usize::MAX && g.active && g.current == Some(id) && slot.epoch.load(SeqCst) == EPOCH.load(SeqCst) {
                CUR.with(|c| c.set(Some(id)));
                return true;
            }
            g = s.cv.wait_timeout(g, std::time::Duration::from_millis(50)).unwrap().0;
        }
    }
    // later waits: an ordinary blocking point of a controlled thread, except that a release ends it
    let woke = s.daemon_yield(id, &slot, p);
    if !woke {
        CUR.with(|c| c.set(None));
    }
    woke
}

pub struct Sched {
    st: Mutex<State>,
    cv: Condvar,
}

static SCHED: OnceLock<Sched> = OnceLock::new();

thread_local! {
    static CUR: Cell<Option<usize>> = const { Cell::new(None) };
}

fn sched() -> &'static Sched {
    SCHED.get_or_init(|| Sched { st: Mutex::new(State::default()), cv: Condvar::new() })
}

pub fn install_hooks() {
    sched();
    let _ = verif::install(verif::Hooks { point: hook_point, acquire: hook_acquire, controlled: hook_controlled, join: hook_join });
    let _ = verif::install_daemon_hooks(verif::DaemonHooks { daemon_start: hook_daemon_start, daemon_wait: hook_daemon_wait });
}

fn hook_controlled() -> bool {
    CUR.with(|c| c.get().is_some())
}

fn hook_point(class: u32, _res: usize) {
    if let Some(me) = CUR.with(|c| c.get()) {
        sched().yield_point(me, class, None, None);
    }
}

fn hook_acquire(class: u32, _res: usize, ready: &(dyn Fn() -> bool + Sync)) {
    if let Some(me) = CUR.with(|c| c.get()) {
        // SAFETY of the lifetime extension: the pointer is only used while this thread is parked
        // inside `yield_point` (i.e. while `ready` is alive)
        let p: *const (dyn Fn() -> bool + Sync) = unsafe { std::mem::transmute(ready) };
        sched().yield_point(me, class, Some(p), None);
    }
}

fn hook_join(a: &mut (dyn FnMut() + Send), b: &mut (dyn FnMut() + Send)) {
    let me = CUR.with(|c| c.get()).expect("join from an uncontrolled thread");
    let s = sched();
    let child = s.register_thread();
    std::thread::scope(|sc| {
        sc.spawn(move || {
            s.thread_main(child, b);
        });
        a();
        // wait for the child: a blocking point
        s.yield_point(me, 100, None, Some(child));
    });
}

impl Sched {
    fn register_thread(&self) -> usize {
        let mut g = self.st.lock().unwrap();
        g.threads.push(Th { st: St::Ready, pred: None, wait_for: None, daemon: false });
        g.threads.len() - 1
    }

    fn is_enabled(g: &State, i: usize) -> bool {
        let t = &g.threads[i];
        if t.st != St::Ready {
            return false;
        }
        if let Some(w) = t.wait_for {
            if g.threads[w].st != St::Finished {
                return false;
            }
        }
        match t.pred {
            // SAFETY: thread i is parked inside yield_point, its predicate is alive
            Some(p) => unsafe { (*p)() },
            None => true,
        }
    }

    /// choose the next thread; `me` = the thread that was running (None if it finished)
    fn decide(&self, g: &mut State, me: Option<usize>, class: u32) {
        let mut enabled: Vec<usize> = vec![];
        let mut running_enabled = false;
        if let Some(m) = me {
            if Self::is_enabled(g, m) {
                enabled.push(m);
                running_enabled = true;
            }
        }
        for i in 0..g.threads.len() {
            if Some(i) != me && Self::is_enabled(g, i) {
                enabled.push(i);
            }
        }
        if enabled.is_empty() {
            if g.threads.iter().all(|t| t.st == St::Finished || t.daemon) {
                g.all_done = true;
                g.current = None;
            } else {
                let waiting: Vec<String> = g.threads.iter().enumerate().filter(|(_, t)| t.st != St::Finished && !t.daemon).map(|(i, t)| format!("thread {i}{}", if t.wait_for.is_some() { " (join)" } else { " (lock)" })).collect();
                g.deadlock = Some(format!("no enabled thread; blocked: {}", waiting.join(", ")));
                g.all_done = true;
                g.current = None;
            }
            self.cv.notify_all();
            return;
        }
        let idx = g.trace.len();
        let choice = if idx < g.prefix.len() { g.prefix[idx] } else { 0 };
        let choice = if choice >= enabled.len() {
            // replay divergence: remembered by the explorer through the recorded enabled sets
            g.overrun = true;
            0
        } else {
            choice
        };
        let chosen = enabled[choice];
        g.trace.push(PointRec { thread: me.unwrap_or(usize::MAX), class, enabled: enabled.clone(), chosen: choice, running_enabled });
        if g.trace.len() > g.max_points {
            g.overrun = true;
        }
        g.current = Some(chosen);
        g.threads[chosen].st = St::Running;
        g.threads[chosen].pred = None;
        g.threads[chosen].wait_for = None;
        self.cv.notify_all();
    }

    fn yield_point(&self, me: usize, class: u32, pred: Option<*const (dyn Fn() -> bool + Sync)>, wait_for: Option<usize>) {
        let mut g = self.st.lock().unwrap();
        if !g.active {
            return;
        }
        g.threads[me].st = St::Ready;
        g.threads[me].pred = pred;
        g.threads[me].wait_for = wait_for;
        self.decide(&mut g, Some(me), class);
        while g.current != Some(me) {
            if g.deadlock.is_some() {
                // park forever: the driver reports the deadlock and exits the process
                drop(g);
                loop {
                    std::thread::park();
                }
            }
            g = self.cv.wait(g).unwrap();
        }
    }

    /// blocking point of an attached daemon; false = released from the scheduler
    fn daemon_yield(&self, me: usize, slot: &DaemonSlot, pred: *const (dyn Fn() -> bool + Sync)) -> bool {
        use std::sync::atomic::Ordering::SeqCst;
        let mut g = self.st.lock().unwrap();
        if !g.active || slot.epoch.load(SeqCst) != EPOCH.load(SeqCst) || slot.released.load(SeqCst) {
            return false;
        }
        g.threads[me].st = St::Ready;
        g.threads[me].pred = Some(pred);
        g.threads[me].wait_for = None;
        self.decide(&mut g, Some(me), 200);
        loop {
            if slot.released.load(SeqCst) || slot.epoch.load(SeqCst) != EPOCH.load(SeqCst) {
                return false;
            }
            if g.active && g.current == Some(me) && g.threads[me].st == St::Running {
                return true;
            }
            if g.deadlock.is_some() {
                drop(g);
                loop {
                    std::thread::park();
                }
            }
            g = self.cv.wait_timeout(g, std::time::Duration::from_millis(50)).unwrap().0;
        }
    }

    fn thread_main(&self, id: usize, f: &mut (dyn FnMut() + Send)) {
        CUR.with(|c| c.set(Some(id)));
        {
            let mut g = self.st.lock().unwrap();
            while g.current != Some(id) {
                if g.deadlock.is_some() {
                    drop(g);
                    loop {
                        std::thread::park();
                    }
                }
                g = self.cv.wait(g).unwrap();
            }
        }
        let r = std::panic::catch_unwind(std::panic::AssertUnwindSafe(|| f()));
        CUR.with(|c| c.set(None));
        let mut g = self.st.lock().unwrap();
        if r.is_err() {
            let (loc, msg) = crate::proto::take_panic();
            g.panics.push(format!("thread {id} panicked at {}: {}", crate::proto::short_site(&loc), msg.lines().next().unwrap_or("")));
        }
        g.threads[id].st = St::Finished;
        self.decide(&mut g, None, 0);
    }
}

pub struct Execution {
    pub trace: Vec<PointRec>,
    pub deadlock: Option<String>,
    pub overrun: bool,
    pub panics: Vec<String>,
}

/// Run the given thread bodies under the scheduler, following `prefix` and then
/// the default policy (keep running the current thread while it is enabled).
/// A deadlock cannot be unwound (threads are parked inside the library while
/// holding locks), so the caller gets the chance to report it first and the
/// process is then terminated.
pub fn run_reporting_deadlock(prefix: &[usize], bodies: Vec<Box<dyn FnOnce() + Send + '_>>, on_deadlock: impl FnOnce(&str, &[PointRec])) -> Execution {
    let s = sched();
    {
        let mut g = s.st.lock().unwrap();
        *g = State::default();
        g.active = true;
        g.prefix = prefix.to_vec();
        g.max_points = 20000;
        for _ in 0..bodies.len() {
            g.threads.push(Th { st: St::Ready, pred: None, wait_for: None, daemon: false });
        }
    }
    // attach the adopted service threads: wait until each of them is parked in its first modelled wait
    {
        use std::sync::atomic::Ordering::SeqCst;
        let epoch = EPOCH.fetch_add(1, SeqCst) + 1;
        let t0 = std::time::Instant::now();
        loop {
            let mut d = DAEMONS.lock().unwrap();
            if d.pending.len() >= d.adopted {
                let mut g = s.st.lock().unwrap();
                let pend: Vec<PendingDaemon> = d.pending.drain(..).collect();
                d.adopted = 0;
                d.attached.clear();
                for pd in pend {
                    let id = g.threads.len();
                    g.threads.push(Th { st: St::Ready, pred: Some(pd.pred), wait_for: None, daemon: true });
                    pd.slot.epoch.store(epoch, SeqCst);
                    pd.slot.id.store(id, SeqCst);
                    d.attached.push(pd.slot);
                }
                break;
            }
            drop(d);
            if t0.elapsed() > std::time::Duration::from_secs(20) {
                println!("M an adopted service thread did not reach its modelled wait within 20 s");
                std::process::exit(2);
            }
            std::thread::sleep(std::time::Duration::from_micros(50));
        }
    }
    // threads are not scoped-joined on deadlock: leak them and exit
    let n = bodies.len();
    let mut handles = vec![];
    for (i, b) in bodies.into_iter().enumerate() {
        // SAFETY: the bodies borrow data of the caller; we either join all threads before
        // returning or terminate the process (deadlock)
        let b: Box<dyn FnOnce() + Send + 'static> = unsafe { std::mem::transmute(b) };
        let mut b = Some(b);
        handles.push(std::thread::spawn(move || {
            s.thread_main(i, &mut || (b.take().unwrap())());
        }));
    }
    let _ = n;
    {
        let mut g = s.st.lock().unwrap();
        s.decide(&mut g, None, 0);
    }
    {
        let mut g = s.st.lock().unwrap();
        while !g.all_done {
            g = s.cv.wait(g).unwrap();
        }
        if let Some(d) = g.deadlock.clone() {
            let tr = g.trace.clone();
            drop(g);
            on_deadlock(&d, &tr);
            println!("M deadlock reported; terminating worker");
            std::process::exit(3);
        }
    }
    for h in handles {
        let _ = h.join();
    }
    // the service threads leave the scheduler and behave like ordinary threads from now on
    {
        use std::sync::atomic::Ordering::SeqCst;
        let mut d = DAEMONS.lock().unwrap();
        for slot in d.attached.drain(..) {
            slot.released.store(true, SeqCst);
        }
    }
    let mut g = s.st.lock().unwrap();
    g.active = false;
    g.released = true;
    s.cv.notify_all();
    Execution { trace: std::mem::take(&mut g.trace), deadlock: None, overrun: g.overrun, panics: std::mem::take(&mut g.panics) }
}

/// number of preemptions in a choice sequence
pub fn preemptions(trace: &[PointRec]) -> usize {
    trace.iter().filter(|p| p.running_enabled && p.chosen != 0).count()
}

pub fn choices(trace: &[PointRec]) -> Vec<usize> {
    trace.iter().map(|p| p.chosen).collect()
}

/// Stateless DFS with iterative preemption bounding. `exec(prefix)` runs one
/// execution (fresh state!) and returns its trace after checking the oracle.
/// Returns (schedules explored, max points per execution).
pub fn explore(bound: usize, max_schedules: usize, exec: impl FnMut(&[usize]) -> Vec<PointRec>) -> (usize, usize, bool) {
    explore_part(bound, max_schedules, 0, 1, exec)
}

/// The same, restricted to one part of the schedule tree. Every part executes the default schedule
/// and all schedules with exactly one deviation from it (they are needed to enumerate the rest and
/// are cheap); of the schedules with two deviations, the one whose second deviation is at point j
/// belongs to part j % parts, and everything below it belongs to the same part. Schedules with at
/// most one deviation are counted by part 0 only, so that the counts of all parts add up to the
/// number of distinct schedules.
pub fn explore_part(bound: usize, max_schedules: usize, part: usize, parts: usize, mut exec: impl FnMut(&[usize]) -> Vec<PointRec>) -> (usize, usize, bool) {
    let mut stack: Vec<Vec<usize>> = vec![vec![]];
    let mut count = 0usize;
    let mut executed = 0usize;
    let mut maxp = 0usize;
    let mut capped = false;
    while let Some(prefix) = stack.pop() {
        if executed >= max_schedules {
            capped = true;
            break;
        }
        let deviations = prefix.iter().filter(|&&c| c != 0).count();
        let trace = exec(&prefix);
        executed += 1;
        if deviations >= 2 || part == 0 {
            count += 1;
        }
        maxp = maxp.max(trace.len());
        // alternatives at points beyond the prefix
        let mut pre = 0usize;
        let mut alts: Vec<Vec<usize>> = vec![];
        for (i, p) in trace.iter().enumerate() {
            if i >= prefix.len() && (deviations != 1 || i % parts == part) {
                for alt in 1..p.enabled.len() {
                    let cost = pre + if p.running_enabled { 1 } else { 0 };
                    if cost <= bound {
                        let mut np: Vec<usize> = trace[..i].iter().map(|q| q.chosen).collect();
                        np.push(alt);
                        alts.push(np);
                    }
                }
            }
            if p.running_enabled && p.chosen != 0 {
                pre += 1;
            }
        }
        // DFS order: deepest alternatives first popped last -> push in reverse so that shallow ones run first
        for a in alts.into_iter().rev() {
            stack.push(a);
        }
    }
    (count, maxp, capped)
}
