//! E-SCHED: cooperative scheduler over the `cfg(oxidd_verif)` hooks and a
//! stateless, preemption-bounded DFS explorer of thread schedules of the REAL
//! code. Controlled threads are OS threads of which exactly one runs at a time;
//! at every hook point the running thread hands the decision to the scheduler.
//! Blocking acquisitions are announced with a readiness predicate, so waiting
//! is visible and "no enabled thread" is a detected deadlock.

#![allow(dead_code)]

use std::cell::Cell;
use std::sync::{Condvar, Mutex, OnceLock};

use oxidd_core::verif;

#[derive(Clone, Copy, PartialEq, Eq, Debug)]
enum St {
    /// registered, parked, may be scheduled when its predicate (if any) holds
    Ready,
    Running,
    Finished,
}

struct Th {
    st: St,
    /// readiness predicate of a thread parked in `acquire` (points into that thread's stack)
    pred: Option<*const (dyn Fn() -> bool + Sync)>,
    /// wait-for-thread predicate (join): ready when that thread is finished
    wait_for: Option<usize>,
}
unsafe impl Send for Th {}

#[derive(Clone, Debug)]
pub struct PointRec {
    pub thread: usize,
    pub class: u32,
    pub enabled: Vec<usize>,
    pub chosen: usize,
    pub running_enabled: bool,
}

#[derive(Default)]
struct State {
    active: bool,
    threads: Vec<Th>,
    current: Option<usize>,
    prefix: Vec<usize>,
    trace: Vec<PointRec>,
    deadlock: Option<String>,
    all_done: bool,
    max_points: usize,
    overrun: bool,
    panics: Vec<String>,
}

pub struct Sched {
    st: Mutex<State>,
    cv: Condvar,
}

static SCHED: OnceLock<Sched> = OnceLock::new();

thread_local! {
    static CUR: Cell<Option<usize>> = const { Cell::new(None) };
}

fn sched() -> &'static Sched {
    SCHED.get_or_init(|| Sched { st: Mutex::new(State::default()), cv: Condvar::new() })
}

pub fn install_hooks() {
    sched();
    let _ = verif::install(verif::Hooks { point: hook_point, acquire: hook_acquire, controlled: hook_controlled, join: hook_join });
}

fn hook_controlled() -> bool {
    CUR.with(|c| c.get().is_some())
}

fn hook_point(class: u32, _res: usize) {
    if let Some(me) = CUR.with(|c| c.get()) {
        sched().yield_point(me, class, None, None);
    }
}

fn hook_acquire(class: u32, _res: usize, ready: &(dyn Fn() -> bool + Sync)) {
    if let Some(me) = CUR.with(|c| c.get()) {
        // SAFETY of the lifetime extension: the pointer is only used while this thread is parked
        // inside `yield_point` (i.e. while `ready` is alive)
        let p: *const (dyn Fn() -> bool + Sync) = unsafe { std::mem::transmute(ready) };
        sched().yield_point(me, class, Some(p), None);
    }
}

fn hook_join(a: &mut (dyn FnMut() + Send), b: &mut (dyn FnMut() + Send)) {
    let me = CUR.with(|c| c.get()).expect("join from an uncontrolled thread");
    let s = sched();
    let child = s.register_thread();
    std::thread::scope(|sc| {
        sc.spawn(move || {
            s.thread_main(child, b);
        });
        a();
        // wait for the child: a blocking point
        s.yield_point(me, 100, None, Some(child));
    });
}

impl Sched {
    fn register_thread(&self) -> usize {
        let mut g = self.st.lock().unwrap();
        g.threads.push(Th { st: St::Ready, pred: None, wait_for: None });
        g.threads.len() - 1
    }

    fn is_enabled(g: &State, i: usize) -> bool {
        let t = &g.threads[i];
        if t.st != St::Ready {
            return false;
        }
        if let Some(w) = t.wait_for {
            if g.threads[w].st != St::Finished {
                return false;
            }
        }
        match t.pred {
            // SAFETY: thread i is parked inside yield_point, its predicate is alive
            Some(p) => unsafe { (*p)() },
            None => true,
        }
    }

    /// choose the next thread; `me` = the thread that was running (None if it finished)
    fn decide(&self, g: &mut State, me: Option<usize>, class: u32) {
        let mut enabled: Vec<usize> = vec![];
        let mut running_enabled = false;
        if let Some(m) = me {
            if Self::is_enabled(g, m) {
                enabled.push(m);
                running_enabled = true;
            }
        }
        for i in 0..g.threads.len() {
            if Some(i) != me && Self::is_enabled(g, i) {
                enabled.push(i);
            }
        }
        if enabled.is_empty() {
            if g.threads.iter().all(|t| t.st == St::Finished) {
                g.all_done = true;
                g.current = None;
            } else {
                let waiting: Vec<String> = g.threads.iter().enumerate().filter(|(_, t)| t.st != St::Finished).map(|(i, t)| format!("thread {i}{}", if t.wait_for.is_some() { " (join)" } else { " (lock)" })).collect();
                g.deadlock = Some(format!("no enabled thread; blocked: {}", waiting.join(", ")));
                g.all_done = true;
                g.current = None;
            }
            self.cv.notify_all();
            return;
        }
        let idx = g.trace.len();
        let choice = if idx < g.prefix.len() { g.prefix[idx] } else { 0 };
        let choice = if choice >= enabled.len() {
            // replay divergence: remembered by the explorer through the recorded enabled sets
            g.overrun = true;
            0
        } else {
            choice
        };
        let chosen = enabled[choice];
        g.trace.push(PointRec { thread: me.unwrap_or(usize::MAX), class, enabled: enabled.clone(), chosen: choice, running_enabled });
        if g.trace.len() > g.max_points {
            g.overrun = true;
        }
        g.current = Some(chosen);
        g.threads[chosen].st = St::Running;
        g.threads[chosen].pred = None;
        g.threads[chosen].wait_for = None;
        self.cv.notify_all();
    }

    fn yield_point(&self, me: usize, class: u32, pred: Option<*const (dyn Fn() -> bool + Sync)>, wait_for: Option<usize>) {
        let mut g = self.st.lock().unwrap();
        if !g.active {
            return;
        }
        g.threads[me].st = St::Ready;
        g.threads[me].pred = pred;
        g.threads[me].wait_for = wait_for;
        self.decide(&mut g, Some(me), class);
        while g.current != Some(me) {
            if g.deadlock.is_some() {
                // park forever: the driver reports the deadlock and exits the process
                drop(g);
                loop {
                    std::thread::park();
                }
            }
            g = self.cv.wait(g).unwrap();
        }
    }

    fn thread_main(&self, id: usize, f: &mut (dyn FnMut() + Send)) {
        CUR.with(|c| c.set(Some(id)));
        {
            let mut g = self.st.lock().unwrap();
            while g.current != Some(id) {
                if g.deadlock.is_some() {
                    drop(g);
                    loop {
                        std::thread::park();
                    }
                }
                g = self.cv.wait(g).unwrap();
            }
        }
        let r = std::panic::catch_unwind(std::panic::AssertUnwindSafe(|| f()));
        CUR.with(|c| c.set(None));
        let mut g = self.st.lock().unwrap();
        if r.is_err() {
            let (loc, msg) = crate::proto::take_panic();
            g.panics.push(format!("thread {id} panicked at {}: {}", crate::proto::short_site(&loc), msg.lines().next().unwrap_or("")));
        }
        g.threads[id].st = St::Finished;
        self.decide(&mut g, None, 0);
    }
}

pub struct Execution {
    pub trace: Vec<PointRec>,
    pub deadlock: Option<String>,
    pub overrun: bool,
    pub panics: Vec<String>,
}

/// Run the given thread bodies under the scheduler, following `prefix` and then
/// the default policy (keep running the current thread while it is enabled).
/// A deadlock cannot be unwound (threads are parked inside the library while
/// holding locks), so the caller gets the chance to report it first and the
/// process is then terminated.
pub fn run_reporting_deadlock(prefix: &[usize], bodies: Vec<Box<dyn FnOnce() + Send + '_>>, on_deadlock: impl FnOnce(&str, &[PointRec])) -> Execution {
    let s = sched();
    {
        let mut g = s.st.lock().unwrap();
        *g = State::default();
        g.active = true;
        g.prefix = prefix.to_vec();
        g.max_points = 20000;
        for _ in 0..bodies.len() {
            g.threads.push(Th { st: St::Ready, pred: None, wait_for: None });
        }
    }
    // threads are not scoped-joined on deadlock: leak them and exit
    let n = bodies.len();
    let mut handles = vec![];
    for (i, b) in bodies.into_iter().enumerate() {
        // SAFETY: the bodies borrow data of the caller; we either join all threads before
        // returning or terminate the process (deadlock)
        let b: Box<dyn FnOnce() + Send + 'static> = unsafe { std::mem::transmute(b) };
        let mut b = Some(b);
        handles.push(std::thread::spawn(move || {
            s.thread_main(i, &mut || (b.take().unwrap())());
        }));
    }
    let _ = n;
    {
        let mut g = s.st.lock().unwrap();
        s.decide(&mut g, None, 0);
    }
    {
        let mut g = s.st.lock().unwrap();
        while !g.all_done {
            g = s.cv.wait(g).unwrap();
        }
        if let Some(d) = g.deadlock.clone() {
            let tr = g.trace.clone();
            drop(g);
            on_deadlock(&d, &tr);
            println!("M deadlock reported; terminating worker");
            std::process::exit(3);
        }
    }
    for h in handles {
        let _ = h.join();
    }
    let mut g = s.st.lock().unwrap();
    g.active = false;
    Execution { trace: std::mem::take(&mut g.trace), deadlock: None, overrun: g.overrun, panics: std::mem::take(&mut g.panics) }
}

/// number of preemptions in a choice sequence
pub fn preemptions(trace: &[PointRec]) -> usize {
    trace.iter().filter(|p| p.running_enabled && p.chosen != 0).count()
}

pub fn choices(trace: &[PointRec]) -> Vec<usize> {
    trace.iter().map(|p| p.chosen).collect()
}

/// Stateless DFS with iterative preemption bounding. `exec(prefix)` runs one
/// execution (fresh state!) and returns its trace after checking the oracle.
/// Returns (schedules explored, max points per execution).
pub fn explore(bound: usize, max_schedules: usize, mut exec: impl FnMut(&[usize]) -> Vec<PointRec>) -> (usize, usize, bool) {
    let mut stack: Vec<Vec<usize>> = vec![vec![]];
    let mut count = 0usize;
    let mut maxp = 0usize;
    let mut capped = false;
    while let Some(prefix) = stack.pop() {
        if count >= max_schedules {
            capped = true;
            break;
        }
        let trace = exec(&prefix);
        count += 1;
        maxp = maxp.max(trace.len());
        // alternatives at points beyond the prefix
        let mut pre = 0usize;
        let mut alts: Vec<Vec<usize>> = vec![];
        for (i, p) in trace.iter().enumerate() {
            if i >= prefix.len() {
                for alt in 1..p.enabled.len() {
                    let cost = pre + if p.running_enabled { 1 } else { 0 };
                    if cost <= bound {
                        let mut np: Vec<usize> = trace[..i].iter().map(|q| q.chosen).collect();
                        np.push(alt);
                        alts.push(np);
                    }
                }
            }
            if p.running_enabled && p.chosen != 0 {
                pre += 1;
            }
        }
        // DFS order: deepest alternatives first popped last -> push in reverse so that shallow ones run first
        for a in alts.into_iter().rev() {
            stack.push(a);
        }
    }
    (count, maxp, capped)
}
